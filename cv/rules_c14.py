"""C14 — print formatting equals C formatting (structural necessary conditions) and
C15 shares the scanner analysis (see rules_c15)."""
from . import ir, util, absmodel, poly
from .report import site
from .front import AnalysisBroken
from .rules_c12 import guards_of, dominated_by_guard, throw_only, succ_of

UNITS = ['src/Show.c', 'src/String.c', 'src/File.c', 'src/Num.c', 'src/Exception.c']


def current_char_names(g, fmtp):
    """canonical expressions that denote the current format character: `*fmt` itself and every local whose only definitions are `*fmt`
    (a local that holds the character read once, e.g. `char spec = *fmt;`)"""
    cur = ir.canon(('un', '*', fmtp))
    defs = {}
    for n in g.live():
        if n['expr'] is None:
            continue
        for ev in util.expr_events(n['expr'], n):
            if ev['t'] == 'write':
                l = ir.top_nocast(ev['lhs'])
                if l[0] == 'local':
                    defs.setdefault(ir.canon(l), []).append(ir.canon(ev['rhs']) if ev.get('rhs') is not None and ev.get('op') in ('=', None) else None)
    return {cur} | {l for l, rs in defs.items() if rs and all(r == cur for r in rs)}


def letter_tests(g, fmtp):
    """cond nodes that test the current format character: -> [(node, set(letters), polarity_when_match)]"""
    out = []
    cur0 = ir.canon(('un', '*', fmtp))
    curs = current_char_names(g, fmtp)
    for n in g.live():
        if n['kind'] != 'cond':
            continue
        c = ir.canon(n['expr'])
        if c[0] == 'bin' and c[1] in ('==', '!=') and (c[2] in curs or c[3] in curs):
            other = c[3] if c[2] in curs else c[2]
            if other[0] == 'int':
                out.append((n, {chr(other[1])}, c[1] == '=='))
        elif c[0] == 'call' and ir.callee_name(c) == 'strchr' and len(c[2]) == 2 and c[2][1] in curs and c[2][0][0] == 'str':
            out.append((n, set(c[2][0][1]), True))
    # the same skip written with the library idiom: fmt += strcspn(fmt, "set")
    for n in g.live():
        if n['kind'] == 'cond' or n['expr'] is None:
            continue
        for c in ir.calls(n['expr']):
            if ir.callee_name(c) == 'strcspn' and len(c[2]) == 2 and ir.canon(c[2][0]) == ir.canon(fmtp) and ir.top_nocast(c[2][1])[0] == 'str':
                out.append((n, set(ir.top_nocast(c[2][1])[1]), True))
    return out


def branch_nodes(g, cond, pol):
    """nodes of the arm taken when cond has polarity pol: reachable from that successor without
    passing the other successor or leaving through the enclosing loop header"""
    t = succ_of(cond, pol)
    f = succ_of(cond, not pol)
    cut = [f] if f is not None else []
    for n in g.live():
        if n['kind'] == 'join' and n.get('loop') and cond['id'] in g.natural_loop(n['id']):
            cut.append(n['id'])
    return [g.nodes[i] for i in sorted(g.reach_from(t, cut_nodes=cut))]


KIND_ACCESSOR = {'s': 'c_str', 'int': 'c_int', 'float': 'c_float', 'c': 'c_int', 'p': None}


def check_print(P, ctx):
    fn = P.fn('print_to_with')
    g = P.cfg(fn)
    ctx.fn(fn)
    fmtp = ('param', 'fmt', 2)
    tests = letter_tests(g, fmtp)
    s = site(fn)
    # the terminator test of the specification scanner: the strchr inside the `while (not strchr(...)) fmt++` loop
    term = [t for t in tests if len(t[1]) > 8]
    rule = 'C14.specifier-table'
    if len(term) != 1:
        ctx.undecided(rule, 'terminators', s, 'cannot identify the conversion-letter set that ends a specification')
        return
    terminators = term[0][1]
    # argument fetch
    fetch = [n for n in g.live() if n.get('decl') and n['decl']['init'] is not None and any(ir.callee_name(c) == 'get' for c in ir.calls(n['decl']['init']))]
    if len(fetch) != 1:
        ctx.undecided(rule, 'fetch', s, 'argument fetch not found')
        return
    av = ('local', fetch[0]['decl']['name'])
    # the tests that follow the fetch within one round of the scanning loop (reached from it without passing a loop header again);
    # source line numbers are not used: code spliced back from a helper carries the helper's lines
    heads = [n['id'] for n in g.live() if n['kind'] == 'join' and n.get('loop')]
    after_fetch = g.reach_from(fetch[0]['id'], cut_nodes=heads)
    branches = [t for t in tests if t is not term[0] and fetch[0]['id'] in g.reach_from(g.entry) and t[0]['id'] in after_fetch]
    handled = {}
    posv = ('param', 1)
    for (cn, letters, pol) in branches:
        body = branch_nodes(g, cn, pol)
        fcalls = [(n, c) for n in body if n['expr'] is not None for c in ir.calls(n['expr']) if ir.callee_name(c) in ('format_to', 'show_to')]
        key = ''.join(sorted(letters))
        for L in letters:
            handled.setdefault(L, []).append(key)
        ok = len(fcalls) == 1
        detail = []
        what = 'conversion(s) %s are formatted by exactly one sink call that receives the fetched argument through the accessor of its kind, unchanged' % key
        if ok:
            n, c = fcalls[0]
            nm = ir.callee_name(c)
            if letters == {'$'}:
                args = [ir.canon(a) for a in c[2]]
                e = ir.canon(n['expr'])
                ok = nm == 'show_to' and args == [av, ('param', 0), posv] and e[0] == 'assign' and e[2] == posv
                what = '%$ hands the argument to show_to(arg, out, pos) and takes its position'
            else:
                args = [ir.noicast(a) for a in c[2]]
                cargs = [ir.canon(a) for a in c[2]]
                kind = 's' if letters == {'s'} else 'c' if letters == {'c'} else 'p' if letters == {'p'} else 'int' if letters <= set('diouxX') else 'float' if letters <= set('fFeEgGaA') else None
                acc = KIND_ACCESSOR.get(kind)
                want_arg = ir.canon(('call', ('func', acc), (('local', av[1], None),))) if acc else av
                # the value is passed as fetched: no narrowing cast on the way into the variadic call
                raw_last = args[3] if len(args) > 3 else None
                has_cast = raw_last is not None and any(x[0] == 'cast' for x in ir.walk(raw_last))
                ok = nm == 'format_to' and kind is not None and len(cargs) == 4 and cargs[0] == ('param', 0) and cargs[1] == posv and \
                    cargs[2] == ('local', 'fmt_buf') and cargs[3] == want_arg and not has_cast
                what = 'conversion(s) %s format the argument fetched with %s, passed unchanged, with the copied specification' % (key, acc or 'the raw pointer')
                detail.append('call: %s' % ir.fmt(ir.canon(c)))
                # position accounting: off = result; off < 0 -> FormatError; pos += off
                offd = n.get('decl')
                if ok and offd:
                    ov = ('local', offd['name'])
                    neg = [x for x in body if x['kind'] == 'cond' and ir.canon(x['expr']) == ir.canon(('bin', '<', ov, ('int', 0)))]
                    add = [x for x in body if x['kind'] == 'stmt' and x['expr'] is not None and ir.canon(x['expr']) == ('assign', '+=', posv, ov)]
                    okp = len(neg) == 1 and len(add) == 1 and throw_only(g, succ_of(neg[0], True)) and \
                        g.nodes[succ_of(neg[0], True)]['why'] == ('throw', 'FormatError') and g.must_pass(add[0]['id'], through_edges=[(neg[0]['id'], False)])
                    ctx.check(okp, 'C14.position', key, site(fn, n['line']), 'the count returned by the sink is added to the position exactly once; a negative count raises FormatError')
                elif ok:
                    ctx.refuted('C14.position', key, site(fn, n['line']), 'the sink\'s return value is not captured')
        ctx.check(ok, rule, 'branch:' + key, site(fn, cn['line']), what, detail)
    union = set(handled)
    dup = {L: k for L, k in handled.items() if len(k) > 1}
    ctx.check(union == terminators and not dup, rule, 'letters', s,
              'the conversion letters that end a specification (%s) are exactly the letters some branch formats, each by one branch' % ''.join(sorted(terminators)),
              ['handled: %s' % ''.join(sorted(union)), 'ending but unhandled: %s' % ''.join(sorted(terminators - union)),
               'handled but never ending a specification: %s' % ''.join(sorted(union - terminators)), 'handled twice: %s' % dup])
    # literal text and %%: copied text is output through format_to(out, pos, fmt_buf) / "%%" and counted
    lit = [(n, c) for n in g.live() if n['expr'] is not None for c in ir.calls(n['expr']) if ir.callee_name(c) == 'format_to' and len(c[2]) == 3]
    ok = len(lit) == 2
    for n, c in lit:
        a = [ir.canon(x) for x in c[2]]
        ok = ok and a[0] == ('param', 0) and a[1] == posv and (a[2] == ('local', 'fmt_buf') or a[2] == ('str', '%%'))
    ctx.check(ok, rule, 'literals', s, 'literal text is copied to the scratch buffer and written with the sink; %% is written as the two-character format "%%"')
    # too few arguments
    rule = 'C14.too-few-arguments'
    iv = None
    c = [c for c in ir.calls(fetch[0]['decl']['init']) if ir.callee_name(c) == 'get'][0]
    st = ir.as_stack(c[2][1])
    iv = ir.canon(st[1][0]) if st and st[0] == 'Int' else None
    gd = guards_of(g, lambda cc, n_: True if iv is not None and cc == ir.canon(('bin', '>=', iv, ('call', ('func', 'len'), (('param', 'args', 3),)))) else None)
    ok = iv is not None and dominated_by_guard(g, fetch[0]['id'], gd, 'FormatError') is not None
    inc = [n for n in g.live() if n['kind'] == 'stmt' and n['expr'] is not None and ir.canon(n['expr']) in (('un', 'post++', iv), ('un', 'pre++', iv))]
    ok = ok and len(inc) == 1 and g.must_pass(inc[0]['id'], [fetch[0]['id']]) and fetch[0]['id'] not in g.reach_from(fetch[0]['succ'][0][0], cut_nodes=[inc[0]['id']])
    ctx.check(ok, rule, 'print_to_with', site(fn, fetch[0]['line']), 'each specification consumes the next argument (index advanced once per fetch) and `index >= len(args)` raises FormatError before the fetch')
    # scratch buffer bound: malloc(strlen(fmt)+1); copies of at most (fmt-start)+1 bytes + terminator
    rule = 'C14.scratch-bound'
    N = util.Norm(P, fn)
    ma = [c for n in g.live() if n['expr'] is not None for c in ir.calls(n['expr']) if ir.callee_name(c) == 'malloc']
    ok = len(ma) == 1 and poly.from_expr(N.canon(ma[0][2][0])) == poly.Poly.atom('strlen(arg2)') + poly.Poly.const(1)
    span = poly.Poly.atom('arg2') - poly.Poly.atom('start')
    sdefs = util.single_defs(fn)

    def one_level(e):
        """a length held in a local that is defined once (size_t n = fmt - start) stands for its definition"""
        t = ir.top_nocast(e)
        if t[0] == 'local' and len(t) > 2 and t[2] in sdefs and t[1] not in ('start', 'fmt_buf'):
            return sdefs[t[2]]
        return e

    def one_level_deep(e):
        return ir.rebuild(e, lambda x: ir.nocast(one_level(x)) if x[0] == 'local' and len(x) > 2 else x)
    for n in g.live():
        if n['expr'] is None:
            continue
        for ev in util.expr_events(n['expr'], n):
            if ev['t'] == 'call' and ev['name'] == 'memcpy' and N.canon(ev['args'][0]) == ('local', 'fmt_buf'):
                ln = poly.from_expr(N.canon(one_level_deep(ev['args'][2])))
                ok = ok and (ln - span).const_value() in (0, 1) and N.canon(ev['args'][1]) == ('local', 'start')
            if ev['t'] == 'write':
                l = N.canon(one_level_deep(ev['lhs']))
                if l[0] == 'idx' and l[1] == ('local', 'fmt_buf'):
                    ix = poly.from_expr(l[2])
                    ok = ok and (ix - span).const_value() in (0, 1) and util.const_int(ev['rhs']) == 0
    ctx.check(ok, rule, 'print_to_with', s, 'the scratch buffer holds strlen(fmt)+1 bytes; every copy into it is a piece of the format text (at most the text scanned so far plus the conversion letter) followed by a terminator inside the buffer')
    ctx.floor('C14.specifier-table', 8)
    ctx.floor('C14.position', 5)


def check_show_to(P, ctx):
    rule = 'C14.show'
    fn = P.fn('show_to')
    ctx.fn(fn)
    # evaluated (cint): object NULL / not, type with / without a Show instance, instance with / without a show member
    from . import cint
    SELF_, OUT, POS0, FN, SHOWN = 5000, 2, 40, 4242, 9000
    bad, unsup, ncase = None, None, 0
    for selfv in (0, SELF_):
        for has_inst in (0, 1):
            for has_show in (0, 1):
                events = []

                def call(nm, e, it, selfv=selfv, has_inst=has_inst, has_show=has_show, events=events):
                    if nm is None:
                        f_ = it.ev(e[1])
                        if f_ != FN:
                            raise ShowMismatch('calls through an empty member')
                        events.append(('dispatch', [it.ev(a_) for a_ in e[2]]))
                        return SHOWN
                    if nm in ('instance', 'type_instance', 'type_of', 'implements', 'implements_method_at_offset', 'type_implements'):
                        if selfv == 0:
                            raise ShowMismatch('looks up the type of a NULL object (%s)' % nm)
                        if nm == 'instance':
                            return ('ep', 'show', 0) if has_inst else 0
                        if nm == 'type_of':
                            return 8500
                        return has_inst
                    if nm == 'print_to_with':
                        events.append(('sink', [it.ev(e[2][0]), it.ev(e[2][1])], ir.top_nocast(e[2][2])))
                        return POS0 + 7
                    raise cint.NoEval('call %s' % nm)
                atoms = {('global', 'NULL'): 0, ('global', 'Terminal'): 7777, ('global', 'Show'): 8600, ('elem', 'show', 0, 'show'): FN if has_show else 0,
                         ('elem', 'show', 0, 'look'): 0}
                it = cint.CInt(P, fn, atoms=atoms, call=call, recurse=False, N=util.Norm(P, fn, expand_locals=False, inline=False))
                label = 'object %s' % ('NULL' if selfv == 0 else 'of a type %s' % ('without Show' if not has_inst else ('whose Show has no show member' if not has_show else 'with a show function')))
                try:
                    r = it.run([selfv, OUT, POS0])
                except ShowMismatch as x:
                    bad = bad or '%s: %s' % (label, x)
                    continue
                ncase += 1
                if r[0] == 'stuck':
                    unsup = '%s: %s at %s' % (label, r[1], P.cfg(fn).describe(r[2]))
                    continue
                dispatch = selfv != 0 and has_inst and has_show
                if dispatch:
                    good = r[0] == 'ret' and events == [('dispatch', [selfv, OUT, POS0])] and r[1] == SHOWN
                else:
                    good = r[0] == 'ret' and len(events) == 1 and events[0][0] == 'sink' and events[0][1] == [OUT, POS0] and events[0][2][0] == 'str' and \
                        '$' not in _fmt_items(events[0][2][1]) and r[1] == POS0 + 7
                if not good:
                    bad = bad or '%s: %s, returns %s' % (label, ', '.join('%s%s' % (e_[0], e_[1]) for e_ in events) or 'writes nothing', r[1] if r[0] == 'ret' else r[0])
    ctx.stats['paths'] += ncase
    if unsup and not bad:
        ctx.undecided(rule, 'show_to', site(fn), 'show_to leaves the evaluated fragment: ' + unsup)
    else:
        ctx.check(bad is None, rule, 'show_to', site(fn), 'show_to returns what the type\'s own Show.show writes for (self, out, pos); a NULL object, and an object '
                  'whose type has no show function, is written as literal text at the given position without dispatch (%d cases evaluated)' % ncase, [bad] if bad else None)
    # show functions write through literal formats only (an object\'s contents are never used as a format string)
    rule = 'C14.literal-formats'
    nsites = 0
    for T, fname in P.slots_of_class('Show', 'show'):
        if not P.types[T]['unit'].startswith('src/'):
            continue
        f = P.functions.get(fname)
        if f is None:
            continue
        ctx.fn(f)
        bad = None
        for c, ln in ir.all_calls(f['body']):
            nm = ir.callee_name(c)
            if nm in ('print_to_with', 'format_to', 'format_to_va') and len(c[2]) >= 3:
                nsites += 1
                fm = ir.top_nocast(c[2][2])
                if fm[0] != 'str':
                    bad = bad or (ln, ir.fmt(c)[:120])
        ctx.check(bad is None, rule, '%s.Show.show' % T, site(f, bad[0] if bad else None),
                  'text is written through constant format strings; data of the shown object reaches the sink only as an argument (data used as a format would be '
                  're-interpreted: %% collapses, a lone % reads a missing argument)', ['call: %s' % bad[1]] if bad else None)
    ctx.stats['call_sites'] += nsites
    ctx.floor(rule, 6)


def check_position_threaded(P, ctx):
    """a show function returns the position after what it wrote: the position each sink call returns is taken over (assigned to the
    running position or returned), never dropped, and the value finally returned is that running position or a sink call's result"""
    rule = 'C14.position-threaded'
    SINKS = {'print_to', 'print_to_with', 'show_to', 'format_to', 'format_to_va'}
    n_fn = 0
    for T, fname in sorted(P.slots_of_class('Show', 'show')):
        if not P.types[T]['unit'].startswith('src/'):
            continue
        fn = P.fn(fname)
        g = P.cfg(fn, lower_ternary=True)
        ctx.fn(fn)
        n_fn += 1
        bad = None
        posvars = set()
        for n in g.live():
            if n['expr'] is None:
                continue
            e = ir.top_nocast(n['expr'])
            calls = [c for c in ir.calls(n['expr']) if ir.callee_name(c) in SINKS]
            for c in calls:
                taken = False
                if e[0] == 'assign' and e[1] == '=' and ir.top_nocast(e[3]) == c:
                    taken = True
                    t = ir.top_nocast(e[2])
                    if t[0] in ('local', 'param'):
                        posvars.add(t[:3] if t[0] == 'local' else ('param', t[2]))
                elif n['kind'] == 'ret' and e == c:
                    taken = True
                elif e[0] == 'assign' and e[1] == '+=' and ir.top_nocast(e[3]) == c:
                    taken = True
                # a sink call used as the position argument of another sink call is threaded too
                elif any(c2 is not c and ir.callee_name(c2) in SINKS and len(c2[2]) > 1 and ir.top_nocast(c2[2][1]) == c for c2 in ir.calls(n['expr'])):
                    taken = True
                if not taken:
                    bad = bad or 'the position returned by %s at %s is dropped: what it wrote is not counted' % (ir.callee_name(c), g.describe(n))
        posvars.add(('param', 2))
        for n in g.live():
            if n['kind'] == 'ret' and n['expr'] is not None:
                e = ir.top_nocast(n['expr'])
                okr = (e[0] == 'call' and ir.callee_name(e) in SINKS) or (e[0] == 'param' and ('param', e[2]) in posvars) or (e[0] == 'local' and e[:3] in posvars)
                if e[0] == 'param' and e[2] == 2:
                    # returning the incoming position unchanged is right only if nothing was written on the way
                    wrote = any(m['expr'] is not None and any(ir.callee_name(c) in SINKS for c in ir.calls(m['expr'])) and g.must_pass(n['id'], [m['id']]) is False and
                                n['id'] in g.reach_from(m['id']) for m in g.live())
                if not okr:
                    bad = bad or 'returns `%s`, which is not the running position' % ir.fmt(ir.canon(e))[:40]
        ctx.check(bad is None, rule, '%s.Show.show' % T, site(fn), 'every position a sink hands back is carried on, and the final one is returned', [bad] if bad else None)
    ctx.floor(rule, 8)


class ShowMismatch(Exception):
    pass


class ShowUnsupported(Exception):
    pass


def _fmt_items(fmt):
    """the conversion letters of a format string, in order ('$' for %$); %% is literal text"""
    out, i = [], 0
    while i < len(fmt):
        if fmt[i] != '%':
            i += 1
            continue
        if fmt[i + 1:i + 2] == '%':
            i += 2
            continue
        j = i + 1
        while j < len(fmt) and fmt[j] not in 'diuoxXcsfFeEgGaAp$':
            j += 1
        if j >= len(fmt):
            break
        out.append(fmt[j])
        i = j + 1
    return out


def _initlist_items(e):
    """the elements of the `(var[]){...}` literal that the tuple(...) macro builds, or None"""
    found = []

    def rec(x):
        if isinstance(x, tuple):
            if len(x) == 3 and x[0] == 'compound' and isinstance(x[1], str) and x[1].startswith('var[') and isinstance(x[2], tuple) and x[2][0] == 'initlist':
                found.append(x[2][1])
                return
            for y in x:
                rec(y)
    rec(e)
    return found[0] if len(found) == 1 else None


def eval_container_show(P, T, is_map):
    """Evaluate T's show function (cint, exact C conditions; the type's own accessors and cursor functions evaluated from their
    source over the small instances of absmodel).  Every write goes through a sink call (print_to_with / show_to / format_to)
    that is given a position and returns the next one.  Required: the objects shown with %$ are exactly the container's
    elements (key then value for maps), each once, in iteration order; every sink call is given the position the previous one
    returned (the caller's for the first); the function returns the last position.
    Returns (scenarios, mismatch or None, unsupported or None)."""
    from . import cint, absmodel
    from .absmodel import TERM, SELF
    fname = P.slot(T, 'Show', 'show')
    fn = P.fn(fname)
    POS0, OUT = 40, 2
    n_eval = 0
    scen = [(sc, False) for sc in absmodel.scenarios(T)] + ([(3, 2), (3, 1)] if T == 'Tuple' else [])
    for sc, dup in scen:
        M = absmodel.build(P, T, sc)
        label = M.label
        if dup:                                     # the first object is stored again, at the third / the second position
            M.atoms[('elem', 'items', dup, None)] = M.elems[0]
            M.elems[dup] = M.elems[0]
            label += ', the first object stored again at position %d' % (dup + 1)
        n = M.n
        elems = [x for kv in zip(M.elems, M.vals) for x in kv] if is_map else list(M.elems)
        shown, state = [], {'pos': POS0}

        def sink(pos_in, what, it):
            if pos_in != state['pos']:
                raise ShowMismatch('%s is given position %s, the previous write returned %s' % (what, pos_in, state['pos']))
            state['pos'] += 7
            return state['pos']

        def call(nm, e, it):
            if nm == 'print_to_with':
                if len(e[2]) != 4 or ir.top_nocast(e[2][2])[0] != 'str':
                    raise ShowUnsupported('print_to with a format that is not a literal')
                items = _initlist_items(e[2][3])
                if items is None:
                    raise ShowUnsupported('print_to whose argument tuple is not the tuple(...) literal')
                vals_ = []
                for x in items:
                    v = it.ev(x)
                    if v == TERM:
                        break
                    vals_.append(v)
                convs = _fmt_items(ir.top_nocast(e[2][2])[1])
                if len(convs) > len(vals_):
                    raise ShowMismatch('format %r has %d conversions, %d arguments are passed' % (ir.top_nocast(e[2][2])[1], len(convs), len(vals_)))
                if it.ev(e[2][0]) != OUT:
                    raise ShowMismatch('writes to something that is not the output it was given')
                for c, v in zip(convs, vals_):
                    if c == '$':
                        shown.append(v)
                return sink(it.ev(e[2][1]), 'print_to(%r)' % ir.top_nocast(e[2][2])[1], it)
            if nm == 'show_to':
                shown.append(it.ev(e[2][0]))
                if it.ev(e[2][1]) != OUT:
                    raise ShowMismatch('writes to something that is not the output it was given')
                return sink(it.ev(e[2][2]), 'show_to', it)
            if nm in ('format_to', 'format_to_va'):
                if it.ev(e[2][0]) != OUT:
                    raise ShowMismatch('writes to something that is not the output it was given')
                return sink(it.ev(e[2][1]), nm, it)
            if nm == 'len' and it.ev(e[2][0]) == SELF:
                return n
            raise cint.NoEval('call %s' % nm)
        it = cint.CInt(P, fn, atoms=M.atoms, call=call, recurse=True, mem=M.mem, N=util.Norm(P, fn, expand_locals=False, inline=False), max_steps=4000)
        try:
            r = it.run([SELF, OUT, POS0])
        except absmodel.Mismatch as mm:
            return n_eval, '%s: %s' % (label, mm), None
        except ShowMismatch as mm:
            return n_eval, '%s: %s' % (label, mm), None
        n_eval += 1
        if r[0] == 'stuck' and r[1] == 'step bound':
            return n_eval, '%s: the walk does not end (4000 steps)' % label, None
        if r[0] == 'stuck':
            return n_eval, None, '%s: %s at %s' % (label, r[1], P.cfg(fn).describe(r[2]))
        if r[0] != 'ret':
            return n_eval, '%s: the function does not return (%s)' % (label, r[1]), None
        if shown != elems:
            def nm_(v):
                return ('element %s' % '/'.join(str(i + 1) for i, x in enumerate(elems) if x == v)) if v in elems else 'something that is no element (%s)' % (v,)
            return n_eval, '%s: shows [%s], the elements in order are %d' % (label, ', '.join(nm_(v) for v in shown), len(elems)), None
        if r[1] != state['pos']:
            return n_eval, '%s: returns %s, the last write returned position %s' % (label, r[1], state['pos']), None
    return n_eval, None, None


def check_container_show_walk(P, ctx):
    """%$ of a container shows each element once, in order, and the position is threaded through every write: the show
    function of each container type is evaluated on abstract containers (eval_container_show)."""
    rule = 'C14.container-show-walk'
    for T, is_map in (('Array', False), ('List', False), ('Tuple', False), ('Table', True), ('Tree', True)):
        fn = P.fn(P.slot(T, 'Show', 'show'))
        ctx.fn(fn)
        key = '%s.Show.show' % T
        try:
            n, bad, unsup = eval_container_show(P, T, is_map)
        except (ShowUnsupported, absmodel.Unsupported) as x:
            n, bad, unsup = 0, None, str(x)
        ctx.stats['paths'] += n
        if unsup:
            ctx.undecided(rule, key, site(fn), 'the show function leaves the evaluated fragment: ' + unsup)
            continue
        ctx.check(bad is None, rule, key, site(fn),
                  'on small containers (0..3 elements; Table: every occupancy of up to 4 slots; Tree: every shape of up to 4 nodes) the objects shown with %%$ are the elements, each once, in order; every write is given the '
                  'position the previous one returned and the last position is returned (%d scenarios evaluated)' % n, [bad] if bad else None)
    ctx.floor(rule, 5)


def check_string_sink(P, ctx):
    from .rules_c16 import check_sizes
    before = len(ctx.obs)
    check_sizes(P, ctx)
    keep = []
    for o in ctx.obs[before:]:
        if o['key'] == 'String_Format_To':
            o['rule'] = 'C14.string-sink-bound'
            keep.append(o)
    ctx.obs[before:] = keep
    ctx.floors.pop(('C16.size-covers-write', ctx.config), None)
    ctx.floor('C14.string-sink-bound', 1)
    # the File sink delegates to vfprintf with the same format and list
    rule = 'C14.file-sink'
    fn = P.fn(P.slot('File', 'Format', 'format_to'))
    g = P.cfg(fn)
    N = util.Norm(P, fn)
    cs = [(n, c) for n in g.live() if n['expr'] is not None for c in ir.calls(n['expr']) if ir.callee_name(c) == 'vfprintf']
    ok = len(cs) == 1 and cs[0][0]['kind'] == 'ret' and [N.canon(a) for a in cs[0][1][2]] == [('arrow', ('param', 0), 'file'), ('param', 2), ('param', 3)] and g.must_pass(g.exit, [cs[0][0]['id']])
    ctx.check(ok, rule, 'File_Format_To', site(fn), 'the File sink is vfprintf(handle, fmt, va) and returns its count')
    # format_to / format_to_va forward unchanged
    fn = P.fn('format_to')
    g = P.cfg(fn)
    cs = [(n, c) for n in g.live() if n['expr'] is not None for c in ir.calls(n['expr']) if ir.callee_name(c) == 'format_to_va']
    ok = len(cs) == 1 and [ir.canon(a) for a in cs[0][1][2]][:3] == [('param', 0), ('param', 1), ('param', 2)]
    rets = [n for n in g.live() if n['kind'] == 'ret']
    ok = ok and len(rets) == 1 and cs[0][0].get('decl') and ir.canon(rets[0]['expr']) == ('local', cs[0][0]['decl']['name'])
    ctx.check(ok, rule, 'format_to', site(fn), 'format_to forwards (sink, pos, fmt, va_list) and returns the sink\'s count')
    ctx.floor(rule, 2)


def run(ctx, load):
    P = load(None, 'default')
    ctx.stats['units'] = set(P.units)
    ctx.stats['configs'] = ['default']
    check_print(P, ctx)
    check_show_to(P, ctx)
    check_position_threaded(P, ctx)
    check_container_show_walk(P, ctx)
    check_string_sink(P, ctx)


EXPLANATION = (
    'Decided: (a) specifier-table — the set of conversion letters that ends a specification equals the disjoint union of the letters the '
    'branches of print_to_with format; each branch fetches the argument with the accessor of its kind (c_str / c_int / c_float / raw '
    'pointer / show_to) and passes it unchanged (no narrowing) together with the copied specification; literal text and %% go through '
    'the sink; (b) position — every branch adds the sink\'s count once, a negative count raises FormatError, %$ takes show_to\'s position; '
    '(c) too-few-arguments — the argument-count test dominates the fetch and the index advances once per specification; (d) bounds — '
    'the scratch copy stays inside strlen(fmt)+1 bytes; the String sink measures with vsnprintf(NULL,0) on a copy of the list, requests '
    'pos+len+1 and writes at pos with the original list; the File sink is vfprintf; (e) show functions use constant format strings only. '
    'Not decided: character-for-character equality with printf (the C library\'s own behaviour), malformed format strings.')
