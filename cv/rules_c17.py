"""C17 — the collector's registry is exactly the set of live managed objects."""
from . import ir, util, probe, loops
from .report import site
from .front import AnalysisBroken

UNITS = ['src/GC.c', 'src/Alloc.c', 'src/Exception.c', 'src/Table.c']
LOOKUPS = ['GC_Mem_Ptr', 'GC_Rem_Ptr', 'GC_Mark_Item']
INSERT = 'GC_Set_Ptr'


def majority(forms):
    """{name: hashable form} -> (the most common form, name of one function that has it)"""
    from collections import Counter
    c = Counter(forms.values())
    best = c.most_common(1)[0][0]
    return best, [k for k, v in forms.items() if v == best][0]


def _resolve_anchors(P):
    """the membership lookup may live in its own helper or directly in the Get.mem slot of the collector"""
    global LOOKUPS
    if P.fn('GC_Mem_Ptr', required=False) is None:
        alt = P.slot('GC', 'Get', 'mem', required=False)
        if alt:
            LOOKUPS = [alt if x == 'GC_Mem_Ptr' else x for x in LOOKUPS]
    elif 'GC_Mem_Ptr' not in LOOKUPS:
        LOOKUPS = ['GC_Mem_Ptr'] + [x for x in LOOKUPS if x in ('GC_Rem_Ptr', 'GC_Mark_Item')]


def report_registry(P, ctx, rule, ops, texts=None):
    """obligations from the registry evaluation (gcmodel): one per operation in ops"""
    from . import gcmodel
    res = gcmodel.eval_registry(P)
    ctx.stats['paths'] += res['n']
    fnames = {'set': 'GC_Set_Ptr', 'mem': 'GC_Mem_Ptr' if P.fn('GC_Mem_Ptr', required=False) else P.slot('GC', 'Get', 'mem'), 'rem': 'GC_Rem_Ptr', 'mark': 'GC_Mark_Item'}
    default = {'set': 'registering a pointer leaves exactly the registered pointers in the table, each once with its own root flag and mark, its hash stored as home slot + 1, '
                      'and every one of them where a lookup from its home slot finds it (pointers whose home slots collide and wrap past the end included)',
               'mem': 'a lookup answers true exactly for the registered pointers, whatever was inserted or removed before, and changes nothing; a registry without slots holds nothing',
               'rem': 'removing a registered pointer strikes exactly its entry, moves the displaced entries behind it back so that every other pointer is still found, decrements the '
                      'count once and finalises the pointer once; a pointer that is not registered leaves the registry as it is',
               'mark': 'marking an unmarked registered pointer sets its mark and traces it once; a marked or an unregistered pointer changes and traces nothing'}
    for op in ops:
        fn = P.fn(fnames[op], required=False) or P.fn(P.slot('GC', 'Get', 'mem'))
        ctx.fn(fn)
        bad, unsup = res['bad'].get(op), res['unsup'].get(op)
        text = (texts or {}).get(op, default[op])
        if unsup and not bad:
            ctx.undecided(rule, fnames[op], site(fn), 'leaves the evaluated fragment: ' + unsup)
        else:
            ctx.check(bad is None, rule, fnames[op], site(fn), text + ' (evaluated on 5-slot registries, %d steps)' % res['n'], [bad] if bad else None)


def check_probe_agreement(P, ctx, rule='C17.probe-agreement'):
    # insertion, lookup, removal and marking agree on where an entry is to be found: decided by evaluating the four of them on small
    # registries against the set of registered pointers (gcmodel), not by comparing their loops
    report_registry(P, ctx, rule, ('set', 'mem', 'rem', 'mark'))
    # probe distance function is the same function of (nslots, i, h) for registry and Table
    why = probe.probe_function_eval(P, 'GC_Probe')
    ctx.check(why is None, rule, 'GC_Probe', site(P.fn('GC_Probe')),
              'the probe distance of a resident is (slot - home) modulo the slot count, non-negative also for entries that wrapped past the end of the table '
              '(evaluated with exact C conversions for table sizes 1..7)', [why] if why else None)
    # the sweep's own back-shift: decided by evaluating the sweep (gcmodel.eval_sweep) — afterwards every surviving pointer is findable
    from . import gcmodel
    sbad, sunsup, sn = gcmodel.eval_sweep(P)
    ctx.stats['paths'] += sn
    fsw = P.fn('GC_Sweep')
    if sunsup and not sbad:
        ctx.undecided(rule, 'back-shift:GC_Sweep', site(fsw), 'the sweep leaves the evaluated fragment: ' + sunsup)
    else:
        ctx.check(sbad is None, rule, 'back-shift:GC_Sweep', site(fsw), 'after reclaiming entries the sweep leaves every surviving pointer where a lookup from its home slot finds it, '
                  'with its own root flag (%d registries evaluated)' % sn, [sbad] if sbad else None)
    ctx.floor(rule, 6)


def backshift_form(P, fname, probe_fn='GC_Probe', depth=1):
    """role-normalised description of the backward-shift loop of fname (searched in fname and, if not there, in the
    same-unit helpers it calls): next-slot expression, the truth table of "continues shifting" over samples of
    (stored hash of the next slot, its probe distance), and the set of actions of one shifting step"""
    from . import loops
    cands = [fname]
    f0 = P.fn(fname)
    if depth:
        for c, _ in ir.all_calls(f0['body']):
            nm = ir.callee_name(c)
            if nm in P.functions and P.functions[nm]['unit'] == f0['unit'] and nm not in cands:
                cands.append(nm)
    for f in cands:
        fn = P.fn(f)
        g2 = P.cfg(fn)
        N = util.Norm(P, fn, inline=False)
        njd = [n for n in g2.live() if n.get('decl') and n['decl']['init'] is not None and ir.nocast(n['decl']['init'])[0] == 'bin' and ir.nocast(n['decl']['init'])[1] == '%'
               and not any(x[0] == 'call' for x in ir.walk(n['decl']['init']))]
        if len(njd) != 1:
            continue
        njn = njd[0]
        nj = ('local', njn['decl']['name'], njn['decl']['id'])
        jv = [x for x in ir.walk(ir.nocast(njn['decl']['init'])) if x[0] == 'local' or (x[0] == 'param' and x[2] != 0)]
        if not jv:
            continue
        jv = jv[0]
        nhd = [n for n in g2.live() if n.get('decl') and n['decl']['init'] is not None and probe._slot_hash_read(n['decl']['init']) == nj]
        if len(nhd) != 1:
            continue
        nh = ('local', nhd[0]['decl']['name'], nhd[0]['decl']['id'])
        roles = {nj: ('local', 'NJ'), jv: ('local', 'J'), nh: ('local', 'NH')}

        class RN:
            def canon(self_, e):
                return N.canon(ir.subst(ir.nocast(e), roles))
        rn = RN()
        loop_nodes = g2.innermost_loop_of(njn['id']) or set()
        movers = [g2.nodes[i] for i in loop_nodes if g2.nodes[i]['expr'] is not None and any(ir.callee_name(c) in ('memcpy', 'memmove') for c in ir.calls(g2.nodes[i]['expr']))]
        if len(movers) != 1:
            continue
        probe_call = None
        for i in loop_nodes:
            n = g2.nodes[i]
            if n['expr'] is None:
                continue
            for c in ir.calls(n['expr']):
                if ir.callee_name(c) == probe_fn:
                    probe_call = rn.canon(c)
        if probe_call is None:
            continue
        table = {}
        for hv in (0, 3):
            for pv in (0, 1, 5):
                why, node, env = util.walk_eval(g2, rn, {('local', 'NH'): hv, probe_call: pv, ('local', 'J'): 2, ('arrow', ('param', 0), 'nslots'): 11},
                                                start=nhd[0]['succ'][0][0], stop=[movers[0]['id']] + [i for i in range(len(g2.nodes)) if i not in loop_nodes])
                table[(hv, pv)] = (why == 'stop' and node['id'] == movers[0]['id'])
        acts = sorted(ir.fmt(rn.canon(g2.nodes[i]['expr'])) for i in loop_nodes if g2.nodes[i]['kind'] == 'stmt' and g2.nodes[i]['expr'] is not None)
        return {'fn': f, 'next': ir.fmt(rn.canon(njn['decl']['init'])), 'table': table, 'acts': tuple(acts)}
    return None


def check_entry_moves_whole(P, ctx, rule='C17.entry-moves-whole'):
    """wherever a registry entry changes slot (displacement on insert, back-shift on removal, rehash) all of
    its fields (pointer, hash, root flag, mark) travel together"""
    report_registry(P, ctx, rule, ('set', 'rem'), texts={
        'set': 'displacing a resident on insertion carries its whole entry along: afterwards every pointer still has its own root flag and mark',
        'rem': 'the back-shift after a removal moves whole entries: afterwards every pointer still has its own root flag and mark, and the vacated slot is empty'})
    # the sweep's back-shift moves whole entries: decided by evaluating the sweep (root flags stay with their pointers; a move that is
    # not one whole entry is refused by the model)
    from . import gcmodel
    sbad, sunsup, sn = gcmodel.eval_sweep(P)
    fsw = P.fn('GC_Sweep')
    if sunsup and not sbad:
        ctx.undecided(rule, 'GC_Sweep:back-shift', site(fsw), 'the sweep leaves the evaluated fragment: ' + sunsup)
    else:
        ctx.check(sbad is None, rule, 'GC_Sweep:back-shift', site(fsw), 'the sweep\'s back-shift moves whole entries (%d registries evaluated)' % sn, [sbad] if sbad else None)
    # rehash re-inserts each occupied old slot with its own pointer and root flag (evaluated with cint on old tables of 0..4 slots,
    # every occupancy): the insertions go into the new table, each occupied slot once with its own pointer and flag, then the old
    # table — and only it — is freed
    from . import cint
    import itertools
    fn = P.fn('GC_Rehash')
    ctx.fn(fn)
    bad, unsup, ncase = None, None, 0
    GCP, OLD, NEW = ('ep', 'gc', 0), ('ep', 'old', 0), ('ep', 'new', 0)
    for k in range(0, 5):
        for occ in itertools.product((0, 1), repeat=k):
            atoms = {('global', 'NULL'): 0, ('elem', 'gc', 0, 'entries'): OLD, ('elem', 'gc', 0, 'nslots'): k, ('elem', 'gc', 0, 'nitems'): sum(occ)}
            for i in range(k):
                atoms[('elem', 'old', i, 'hash')] = (40 + i) if occ[i] else 0
                atoms[('elem', 'old', i, 'ptr')] = (7000 + 8 * i) if occ[i] else 0
                atoms[('elem', 'old', i, 'root')] = (i % 2) if occ[i] else 0
                atoms[('elem', 'old', i, 'marked')] = 0
            events = []

            def call(nm, e, it, events=events, atoms=atoms):
                if nm == 'calloc':
                    events.append(('calloc', it.ev(e[2][0])))
                    return NEW
                if nm == 'GC_Set_Ptr':
                    events.append(('insert', it.ev(e[2][1]), it.ev(e[2][2]), it.atoms.get(('elem', 'gc', 0, 'entries')), it.atoms.get(('elem', 'gc', 0, 'nslots'))))
                    return 0
                if nm == 'free':
                    events.append(('free', it.ev(e[2][0])))
                    return 0
                raise cint.NoEval('call %s' % nm)
            it = cint.CInt(P, fn, atoms=atoms, call=call, max_steps=3000)
            r = it.run([GCP, 11])
            ncase += 1
            label = 'old table %s' % (''.join('x' if o else '.' for o in occ) or '(no slots)')
            if r[0] != 'ret':
                unsup = unsup or '%s: %s' % (label, r[1])
                continue
            want = [('calloc', 11)] + [('insert', 7000 + 8 * i, i % 2, NEW, 11) for i in range(k) if occ[i]] + [('free', OLD)]
            got = [ev_ for ev_ in events]
            if sorted(map(repr, got[1:-1])) != sorted(map(repr, want[1:-1])) or got[:1] != want[:1] or got[-1:] != want[-1:]:
                if bad is None:
                    ins = [ev_ for ev_ in got if ev_[0] == 'insert']
                    wins = [ev_ for ev_ in want if ev_[0] == 'insert']
                    if sorted(map(repr, ins)) != sorted(map(repr, wins)):
                        bad = '%s: re-inserts %s; the occupied slots hold %s' % (label, [('slot %s' % ((x[1] - 7000) // 8), 'root' if x[2] else 'plain', 'into the new table' if x[3] == NEW and x[4] == 11 else 'NOT into the new table')
                                                                                   for x in ins], [((x[1] - 7000) // 8, 'root' if x[2] else 'plain') for x in wins])
                    else:
                        bad = '%s: %s' % (label, 'the old table is not freed last (events: %s)' % [ev_[0] for ev_ in got])
    ctx.stats['paths'] += ncase
    if unsup and not bad:
        ctx.undecided(rule, 'GC_Rehash', site(fn), 'rehash leaves the evaluated fragment: ' + unsup)
    else:
        ctx.check(bad is None, rule, 'GC_Rehash', site(fn), 'rehash re-inserts every occupied slot of the old table with that slot\'s own pointer and root flag, then frees the old table '
                  '(%d old tables evaluated)' % ncase, [bad] if bad else None)
    ctx.floor(rule, 4)


def check_counts(P, ctx):
    rule = 'C17.count-pairing'
    # GC_Set and the resize helpers, evaluated (cint): a running collector counts the new object once, grows the table when the ideal size
    # for the *new* count exceeds the slots, then inserts (key, root flag) once; a stopped collector changes nothing
    res = eval_gc_set(P)
    fn = P.fn(P.slot('GC', 'Get', 'set'))
    ctx.fn(fn)
    ctx.stats['paths'] += res['n']
    if res['unsup'] and not res['count']:
        ctx.undecided(rule, 'GC_Set', site(fn), 'GC_Set leaves the evaluated fragment: ' + res['unsup'])
    else:
        ctx.check(res['count'] is None, rule, 'GC_Set', site(fn), 'a running collector counts the new object once, grows the table for the new count, then inserts it — on every path '
                  '(%d cases evaluated)' % res['n'], [res['count']] if res['count'] else None)
    for f, grows in (('GC_Resize_More', True), ('GC_Resize_Less', False)):
        if P.fn(f, required=False) is None:
            ctx.proved(rule, f, site(fn), 'no separate helper: the size test is part of its caller (evaluated there)')
            continue
        fn2, bad, unsup = eval_resize(P, f, grows)
        if unsup and not bad:
            ctx.undecided(rule, f, site(fn2), 'leaves the evaluated fragment: ' + unsup)
        else:
            ctx.check(bad is None, rule, f, site(fn2), ('%s rehashes to the ideal size for the current count whenever that is larger than the slot count' % f) if grows else
                      ('%s rehashes to the ideal size for the current count, never to anything else' % f), [bad] if bad else None)
    # GC_Rem_Ptr: a removal decrements the count once (evaluated: gcmodel)
    report_registry(P, ctx, rule, ('rem',), texts={'rem': 'an explicit removal clears the slot, decrements the count once and finalises the object'})
    ctx.floor(rule, 4)


def eval_resize(P, fname, grows):
    from . import cint
    fn = P.fn(fname)
    bad, unsup = None, None
    for nslots in (0, 53, 101):
        for ideal in (0, 53, 101, 211):
            for nitems in (0, 7):
                events = []

                def call(nm, e, it, events=events, ideal=ideal, nitems=nitems):
                    if nm == 'GC_Ideal_Size':
                        if it.ev(e[2][0]) != nitems:
                            events.append(('ideal size of something that is not the count',))
                        return ideal
                    if nm == 'GC_Rehash':
                        events.append(('rehash', it.ev(e[2][1])))
                        return 0
                    raise cint.NoEval('call %s' % nm)
                atoms = {('elem', 'gc', 0, 'nslots'): nslots, ('elem', 'gc', 0, 'nitems'): nitems}
                r = cint.CInt(P, fn, atoms=atoms, call=call, recurse=True).run([('ep', 'gc', 0)])
                if r[0] != 'ret':
                    unsup = '%s' % (r[1],)
                    continue
                need = grows and ideal > nslots
                want = [('rehash', ideal)] if need else []
                if not (events == want or (not need and events == [('rehash', ideal)])) and bad is None:
                    bad = '%d slots, ideal size %d for the count: %s' % (nslots, ideal, ', '.join('%s%s' % (e_[0], e_[1:] if len(e_) > 1 else '') for e_ in events) or 'nothing happens')
    return fn, bad, unsup


def eval_gc_set(P):
    """GC_Set evaluated over {running, stopped} x counts x slot counts x ideal sizes x thresholds x root flag.
    -> {'count': mismatch in counting/growth/insertion, 'trigger': mismatch in the collection trigger, 'unsup', 'n'}"""
    from . import cint
    fn = P.fn(P.slot('GC', 'Get', 'set'))
    out = {'count': None, 'trigger': None, 'unsup': None, 'n': 0}
    KEY = 70000
    for running in (1, 0):
        for nitems in (0, 7):
            for nslots in (0, 53):
                for ideal in (53, 101):
                    for mitems in (3, 100):
                        for root in (0, 1):
                            for lo, hi in ((60000, 80000), (71000, 72000), (10, 20)):
                                events = []

                                def call(nm, e, it, events=events, ideal=ideal, root=root):
                                    if nm == 'GC_Ideal_Size':
                                        events.append(('ideal', it.ev(e[2][0])))
                                        return ideal
                                    if nm == 'GC_Rehash':
                                        events.append(('rehash', it.ev(e[2][1])))
                                        return 0
                                    if nm == 'GC_Set_Ptr':
                                        events.append(('insert', it.ev(e[2][1]), it.ev(e[2][2]), it.atoms.get(('elem', 'gc', 0, 'nitems'))))
                                        return 0
                                    if nm in ('GC_Mark', 'GC_Sweep'):
                                        events.append((nm,))
                                        return 0
                                    if nm == 'c_int':
                                        return root
                                    raise cint.NoEval('call %s' % nm)
                                atoms = {('elem', 'gc', 0, 'running'): running, ('elem', 'gc', 0, 'nitems'): nitems, ('elem', 'gc', 0, 'nslots'): nslots,
                                         ('elem', 'gc', 0, 'mitems'): mitems, ('elem', 'gc', 0, 'minptr'): lo, ('elem', 'gc', 0, 'maxptr'): hi}
                                it = cint.CInt(P, fn, atoms=atoms, call=call, recurse=True)
                                r = it.run([('ep', 'gc', 0), KEY, 9000])
                                out['n'] += 1
                                label = '%s collector, %d objects in %d slots (ideal size for one more: %d), threshold %d' % ('running' if running else 'stopped', nitems, nslots, ideal, mitems)
                                if r[0] != 'ret':
                                    out['unsup'] = out['unsup'] or '%s: %s' % (label, r[1])
                                    continue
                                at = it.atoms
                                if not running:
                                    if events or at[('elem', 'gc', 0, 'nitems')] != nitems:
                                        out['count'] = out['count'] or '%s: %s' % (label, 'the registry is changed (%s)' % (events or 'count'))
                                    continue
                                ins = [e_ for e_ in events if e_[0] == 'insert']
                                reh = [e_ for e_ in events if e_[0] == 'rehash']
                                ide = [e_ for e_ in events if e_[0] == 'ideal']
                                msg = None
                                if at[('elem', 'gc', 0, 'nitems')] != nitems + 1:
                                    msg = 'the count goes from %d to %d' % (nitems, at[('elem', 'gc', 0, 'nitems')])
                                elif ins != [('insert', KEY, root, nitems + 1)]:
                                    msg = 'insertions: %s (expected one of the key with root flag %d, after the count was raised)' % ([e_[1:] for e_ in ins], root)
                                elif any(e_[1] != nitems + 1 for e_ in ide):
                                    msg = 'the ideal size is computed for %s objects, there are %d with the new one' % ([e_[1] for e_ in ide], nitems + 1)
                                elif ideal > nslots and (reh != [('rehash', ideal)] or events.index(reh[0]) > events.index(ins[0])):
                                    msg = 'the table is not grown to %d slots before the insertion (%s)' % (ideal, [e_[0] for e_ in events])
                                elif any(e_[1] != ideal for e_ in reh):
                                    msg = 'rehash to %s, the ideal size is %d' % ([e_[1] for e_ in reh], ideal)
                                elif not (at[('elem', 'gc', 0, 'minptr')] <= KEY <= at[('elem', 'gc', 0, 'maxptr')]):
                                    msg = 'the address bounds [%s, %s] do not include the new object at %d' % (at[('elem', 'gc', 0, 'minptr')], at[('elem', 'gc', 0, 'maxptr')], KEY)
                                if msg:
                                    out['count'] = out['count'] or '%s: %s' % (label, msg)
                                names = [e_[0] for e_ in events]
                                if 'GC_Mark' in names or 'GC_Sweep' in names:
                                    first = min(names.index(x) for x in ('GC_Mark', 'GC_Sweep') if x in names)
                                    if 'insert' not in names or names.index('insert') > first:
                                        out['trigger'] = out['trigger'] or '%s: a collection starts before the new object is in the registry (%s)' % (label, names)
                                    elif 'GC_Mark' in names and 'GC_Sweep' in names and names.index('GC_Sweep') < names.index('GC_Mark'):
                                        out['trigger'] = out['trigger'] or '%s: sweep before mark' % label
                                    elif 'GC_Sweep' in names and 'GC_Mark' not in names:
                                        out['trigger'] = out['trigger'] or '%s: sweep without mark' % label
    return out


def check_resize_after(P, ctx):
    rule = 'C17.resize-after'
    from . import cint
    # GC_Rem evaluated: a running collector removes exactly the given pointer once; any rehash goes to the ideal size for the count
    fn = P.fn(P.slot('GC', 'Get', 'rem'))
    ctx.fn(fn)
    bad, unsup = None, None
    KEY = 70000
    for running in (1, 0):
        for nitems in (1, 8):
            for nslots in (53, 211):
                for ideal in (53, 101):
                    events = []

                    def call(nm, e, it, events=events, ideal=ideal):
                        if nm == 'GC_Ideal_Size':
                            events.append(('ideal', it.ev(e[2][0])))
                            return ideal
                        if nm == 'GC_Rehash':
                            events.append(('rehash', it.ev(e[2][1])))
                            return 0
                        if nm == 'GC_Rem_Ptr':
                            events.append(('remove', it.ev(e[2][1])))
                            it.atoms[('elem', 'gc', 0, 'nitems')] -= 1
                            return 0
                        raise cint.NoEval('call %s' % nm)
                    atoms = {('elem', 'gc', 0, 'running'): running, ('elem', 'gc', 0, 'nitems'): nitems, ('elem', 'gc', 0, 'nslots'): nslots, ('elem', 'gc', 0, 'mitems'): 5}
                    it = cint.CInt(P, fn, atoms=atoms, call=call, recurse=True)
                    it.atoms = atoms
                    r = it.run([('ep', 'gc', 0), KEY])
                    label = '%s collector, %d objects in %d slots' % ('running' if running else 'stopped', nitems, nslots)
                    if r[0] != 'ret':
                        unsup = unsup or '%s: %s' % (label, r[1])
                        continue
                    rem = [e_ for e_ in events if e_[0] == 'remove']
                    msg = None
                    if not running:
                        if events:
                            msg = 'the registry is changed (%s)' % [e_[0] for e_ in events]
                    elif rem != [('remove', KEY)]:
                        msg = 'removals: %s (expected one, of the given pointer)' % [e_[1] for e_ in rem]
                    elif any(e_[0] == 'ideal' and e_[1] != nitems - 1 for e_ in events):
                        msg = 'the ideal size is computed for %s objects, %d remain' % ([e_[1] for e_ in events if e_[0] == 'ideal'], nitems - 1)
                    elif any(e_[0] == 'rehash' and (e_[1] != ideal or events.index(e_) < events.index(rem[0])) for e_ in events):
                        msg = 'rehash %s' % [e_ for e_ in events if e_[0] == 'rehash']
                    if msg and bad is None:
                        bad = '%s: %s' % (label, msg)
    if unsup and not bad:
        ctx.undecided(rule, fn['name'], site(fn), 'leaves the evaluated fragment: ' + unsup)
    else:
        ctx.check(bad is None, rule, fn['name'], site(fn), 'a running collector removes exactly the given pointer, once; a shrink afterwards goes to the ideal size for the remaining count', [bad] if bad else None)
    for f in ('GC_Sweep',):
        fn = P.fn(f)
        g = P.cfg(fn)
        ctx.fn(fn)
        N = util.Norm(P, fn)
        less = [n for (n, c) in g.nodes_calling('GC_Resize_Less')]
        thr = [n for n in g.live() if n['kind'] == 'stmt' and n['expr'] is not None and N.canon(n['expr'])[0] == 'assign' and N.canon(n['expr'])[2] == ('arrow', ('param', 0), 'mitems')]
        rem = [n for n in g.live() if n['expr'] is not None and N.canon(n['expr']) == ('un', 'post--', ('arrow', ('param', 0), 'nitems'))]
        ok = len(less) == 1 and len(thr) == 1 and bool(rem)
        if ok:
            start = rem[0]['id']
            ok = g.must_pass(g.exit, [less[0]['id']], start=start) and g.must_pass(g.exit, [thr[0]['id']], start=start)
            # threshold is a function of the current count, above it
            rhs = N.canon(thr[0]['expr'])[3]
            ni = ('arrow', ('param', 0), 'nitems')
            try:
                ok = ok and all(loops.ev(rhs, {ni: k}) > k for k in (0, 1, 7, 100))
            except loops.NoEval:
                ok = False
        ctx.check(ok, rule, f, site(fn), 'after removals the table is shrunk if oversized and the next collection threshold is recomputed above the current count, on every normal path')
    # collection trigger in GC_Set (evaluated)
    res = eval_gc_set(P)
    fn = P.fn(P.slot('GC', 'Get', 'set'))
    if res['unsup'] and not res['trigger']:
        ctx.undecided(rule, 'GC_Set:trigger', site(fn), 'GC_Set leaves the evaluated fragment: ' + res['unsup'])
    else:
        ctx.check(res['trigger'] is None, rule, 'GC_Set:trigger', site(fn), 'a collection is triggered only after the new object has been inserted (so it is seen on the stack scan), mark before '
                  'sweep', [res['trigger']] if res['trigger'] else None)
    ctx.floor(rule, 3)


def check_pending_trust(P, ctx):
    """The sweep's pending list names addresses that were taken out of the registry *by the sweep that is running*.  A
    deletion may skip the registry lookup on the strength of a pending-list hit only if the list is emptied when that sweep
    ends; otherwise a stale address (reclaimed earlier, reused by the allocator for a new registered object) makes del skip
    the removal and the object stays registered although it was deleted."""
    rule = 'C17.pending-list-trust'
    rp = P.fn('GC_Rem_Ptr')
    g = P.cfg(rp)
    ctx.fn(rp)
    N = util.Norm(P, rp)
    reads_entries = [n['id'] for n in g.live() if n['expr'] is not None and any(util.mentions_field(x, 'entries') for x in [n['expr']])]
    bypass = []
    for n in g.live():
        if n['kind'] != 'cond':
            continue
        c = N.canon(n['expr'])
        if not (c[0] == 'bin' and c[1] in ('==', '!=') and util.mentions_field(c, 'freelist') and util.mentions(c, lambda x: x == ('param', 1))):
            continue
        hit = (c[1] == '==')
        for (v, l) in n['succ']:
            if l == hit and g.exit in g.reach_from(v, cut_nodes=reads_entries):
                bypass.append(n)
    sw = P.fn('GC_Sweep')
    gs = P.cfg(sw)
    ctx.fn(sw)
    Ns = util.Norm(P, sw)
    resets, appends = [], []
    for n in gs.live():
        if n['expr'] is None:
            continue
        for ev in util.expr_events(n['expr'], n):
            if ev['t'] != 'write':
                continue
            lhs = Ns.canon(ev['lhs'])
            if lhs == ('arrow', ('param', 0), 'freenum') and ev['op'] == '=' and util.const_int(ev['rhs']) == 0:
                resets.append(n)
            if lhs[0] == 'idx' and lhs[1] == ('arrow', ('param', 0), 'freelist') and ev['rhs'] is not None and not ir.is_null(ev['rhs']):
                appends.append(n)
    final = [r for r in resets if not any(a['id'] in gs.reach_from(r['id']) for a in appends)]      # resets after the last append
    emptied = bool(appends) and bool(final) and all(gs.must_pass(gs.exit, [r['id'] for r in final], start=a['id']) for a in appends)
    ok = (not bypass) or emptied
    ctx.check(ok, rule, 'GC_Rem_Ptr/GC_Sweep', site(rp, bypass[0]['line'] if bypass else None),
              'a deletion skips the registry lookup after a pending-list hit only if every sweep empties the pending list before it returns '
              '(lookup skipped: %s; list emptied on every path after an append: %s)' % ('yes' if bypass else 'no', 'yes' if emptied else 'no'),
              ['pending-list hit at %s reaches the function exit without reading the registry' % g.describe(bypass[0])] if bypass else None)
    ctx.floor(rule, 1)


def check_mem_asks_table(P, ctx):
    """mem(gc, p) is answered by the registry lookup for every p a registration could have stored: the only words it may reject
    without looking are those outside [minptr, maxptr] (GC_Set keeps these bounds) and any p while the table has no slots.  A
    rejection by alignment, for instance, is wrong: GC_Set registers whatever address an Alloc instance hands out."""
    rule = 'C17.mem-asks-the-table'
    fn = P.fn(P.slot('GC', 'Get', 'mem'))
    g = P.cfg(fn)
    ctx.fn(fn)
    N = util.Norm(P, fn, expand_locals=True, inline=False)
    look = [n['id'] for n in g.live() if n['expr'] is not None and any(ir.callee_name(c) in ('GC_Mem_Ptr', 'GC_Hash') for c in ir.calls(n['expr']))]
    bad = None
    if not look:
        bad = 'no registry lookup found'
    else:
        for pv in (8, 16, 17, 20, 24, 63, 64, 72, 0):
            env = {('param', 1): pv, ('arrow', ('param', 0), 'minptr'): 16, ('arrow', ('param', 0), 'maxptr'): 64, ('arrow', ('param', 0), 'nslots'): 11}
            why, node, env2 = util.walk_eval(g, N, env, stop=look, max_steps=40, unsigned=True)
            if why == 'stop':
                continue
            if why == 'ret' and (pv < 16 or pv > 64):
                continue
            bad = 'with registered addresses in [16, 64] and a non-empty table, mem of the word %d is answered without looking it up (%s at %s)' % (pv, why, g.describe(node))
            break
    ctx.check(bad is None, rule, fn['name'], site(fn), 'membership is decided by the table lookup for every address inside the registered range', [bad] if bad else None)
    ctx.floor(rule, 1)


def check_widths(P, ctx, load, unit='src/GC.c', rule='C17.slot-numbers-keep-their-width', what='registry'):
    """slot numbers, counts and stored home slots are 64-bit quantities that grow with the table: nothing in the unit converts one to a
    narrower integer type (a field of 16 or 32 bits holds them only while the table is small — the suite's tables are)"""
    n = 0
    for fn in P.all_functions():
        if fn['unit'] != unit or fn.get('body') is None:
            continue
        n += 1
        for ln, t, e in util.narrowing_conversions(P, fn):
            ctx.fn(fn)
            ctx.refuted(rule, '%s:narrowed' % fn['name'], site(fn, ln), 'a 64-bit value of the %s (`%s`) is converted to %s: slot numbers beyond its range are stored wrong' % (what, ir.fmt(e)[:50], t))
    Ppos = load(['src/Exception.c'], 'default', ['/verif/witness/positive/narrow.c'])
    ctx.config = 'default'
    pos = util.narrowing_conversions(Ppos, Ppos.fn('PosEntry_Store'))
    ctx.check(bool(pos), rule, 'positive-example', 'witness/positive/narrow.c', 'the detector fires on an entry whose home-slot field is 16 bits wide (PosEntry_Store)')
    ctx.check(n >= 10, rule, 'functions-scanned', unit, '%d functions of %s hold no conversion of a 64-bit integer to a narrower one' % (n, unit))
    ctx.floor(rule, 2)


def run(ctx, load):
    P = load(UNITS, 'default')
    ctx.stats['units'] = set(UNITS)
    ctx.stats['configs'] = ['default']
    check_widths(P, ctx, load)
    check_probe_agreement(P, ctx)
    check_entry_moves_whole(P, ctx)
    check_counts(P, ctx)
    check_resize_after(P, ctx)
    from .rules_c01 import check_root_flag, check_range_filter, check_sweep_and_cycle
    for fnc, pref in ((check_root_flag, 'C17.flags'), (check_range_filter, 'C17.bounds')):
        before = len(ctx.obs)
        fnc(P, ctx)
        for o in ctx.obs[before:]:
            o['rule'] = pref
    for k in list(ctx.floors):
        if k[0].startswith('C01.'):
            ctx.floors.pop(k)
    ctx.floor('C17.flags', 5)
    ctx.floor('C17.bounds', 2)
    from .rules_c06 import check_sweep
    before = len(ctx.obs)
    check_sweep(P, ctx)
    for o in ctx.obs[before:]:
        o['rule'] = 'C17.sweep-compaction'
    ctx.floors.pop(('C06.sweep-once', ctx.config), None)
    ctx.floor('C17.sweep-compaction', 6)
    check_pending_trust(P, ctx)
    check_mem_asks_table(P, ctx)
    from .rules_c06 import check_finalise_unregisters
    check_finalise_unregisters(P, ctx, 'C17.finalised-not-registered')
    # an object is registered once, by its allocator, with the flag it was asked for: the constructing entry points hand the allocator's
    # result straight on (a second registration keeps the first entry's flag and counts twice)
    from .rules_c06 import check_registered_before_use
    Pa = load(None, 'default')
    ctx.config = 'default'
    check_registered_before_use(Pa, ctx, rule='C17.registered-once-by-the-allocator')


EXPLANATION = (
    'Decided: (a) probe-agreement — the three lookups (mem, explicit removal, marker) and the insertion extract to the same '
    'role-normalised fragments: home slot GC_Hash(p) % nslots, distance 0, stop at empty slot or distance > resident\'s probe '
    'distance, advance (i+1) % nslots / j++, hit on pointer equality; the insertion stores home+1 as hash and displaces closer-to-home '
    'residents; the probe-distance function equals Table\'s; the two back-shift loops (explicit removal, sweep) are identical; '
    '(b) entry-moves-whole — displacement, back-shift and rehash carry pointer, hash, root flag and mark together, rehash covers '
    'every occupied old slot; (c) count-pairing — insert counts +1 once with growth first, removal −1 once, resize helpers compare '
    'in the right direction; (d) flags/bounds as allocated; (e) shrink + threshold update after removals, collection triggered only '
    'after insertion; (f) sweep compaction rules shared with C06. Not decided: the probe-distance invariant over all address '
    'patterns (a value-level property of the arithmetic).')
