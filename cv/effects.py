"""Pointer-origin ("roots") analysis and mutation summaries.

roots(e): which parameters / fresh allocations the *address* denoted by a
pointer expression derives from. Flow-insensitive on locals (a local's roots
are the union over all its assignments) — conservative: more derivations, never
fewer. Integer-typed leaves contribute no roots, so `node + m->ksize` derives
from `node` only.
"""
from . import ir, util
from .front import AnalysisBroken

LIBC_MUT = {  # function -> indices of pointer arguments whose pointee is written / released
    'free': (0,), 'realloc': (0,), 'memmove': (0,), 'memcpy': (0,), 'memset': (0,),
    'strcpy': (0,), 'strcat': (0,), 'strncpy': (0,), 'vsprintf': (0,), 'sprintf': (0,),
    'fread': (0,), 'fclose': (0,), 'pclose': (0,),
}
CELLO_MUT = {  # public generic operations that mutate their first argument
    'destruct': (0,), 'assign': (0,), 'swap': (0, 1), 'set': (0,), 'rem': (0,), 'push': (0,),
    'pop': (0,), 'push_at': (0,), 'pop_at': (0,), 'resize': (0,), 'concat': (0,), 'append': (0,),
    'construct_with': (0,), 'header_init': (0,), 'del': (0,), 'del_raw': (0,), 'del_root': (0,),
    'dealloc': (0,), 'dealloc_raw': (0,), 'dealloc_root': (0,), 'sclose': (0,), 'ref': (0,),
}
PASS_THROUGH = {'cast': 0, 'header_init': 0, 'realloc': 0, 'memcpy': 0, 'memmove': 0, 'memset': 0,
                'strcpy': 0, 'strcat': 0, 'assign': 0, 'construct_with': 0, 'destruct': 0}
FRESH = {'malloc', 'calloc', 'alloc', 'alloc_raw', 'alloc_root', 'new_with', 'new_raw_with',
         'new_root_with', 'copy', 'strdup', 'fopen', 'popen'}


def is_ptr(t):
    return t is not None and ('*' in t or t in ('var', 'jmp_buf', 'va_list'))


class Effects:
    def __init__(self, P):
        self.P = P
        self._env = {}
        self._ret = {}
        self._mut = {}
        self._busy = set()

    # -- types ------------------------------------------------------------------
    def ret_type(self, name):
        f = self.P.functions.get(name)
        t = None
        if f is not None:
            t = f['type']
        else:
            for u in self.P.units.values():
                if name in u['protos']:
                    t = u['protos'][name]['type']
                    break
        if t is None:
            return None
        return t.split('(')[0].strip()

    # -- roots --------------------------------------------------------------------
    def local_env(self, fn):
        """{local id: set(root tokens)}; tokens: ('param', i), 'fresh', 'unknown', ('global', n)"""
        key = (fn['unit'], fn['name'])
        if key in self._env:
            return self._env[key]
        env = {}
        self._env[key] = env
        assigns = []
        ltypes = {}
        for s in ir.stmts(fn['body']):
            if s['k'] == 'decl':
                for d in s['decls']:
                    ltypes[d['id']] = d['type']
                    if d['init'] is not None:
                        assigns.append((d['id'], d['init']))
        for e, _ in ir.all_exprs(fn['body']):
            for x in ir.walk(e):
                if x[0] == 'assign':
                    t = ir.top_nocast(x[2])
                    if t[0] == 'local':
                        assigns.append((t[2], x[3]))
        for lid in ltypes:
            env[lid] = set()
        fn['_ltypes'] = ltypes
        changed = True
        while changed:
            changed = False
            for lid, e in assigns:
                if not is_ptr(ltypes.get(lid)):
                    continue
                r = self.roots(fn, e)
                if not r <= env.setdefault(lid, set()):
                    env[lid] |= r
                    changed = True
        return env

    def roots(self, fn, e):
        env = self._env.get((fn['unit'], fn['name']))
        if env is None:
            env = self.local_env(fn)
        e = ir.top_nocast(e)
        k = e[0]
        if k == 'param':
            if e[2] >= 0 and is_ptr(fn['params'][e[2]][1]):
                return {('param', e[2])}
            return set()
        if k == 'local':
            if not is_ptr(fn.get('_ltypes', {}).get(e[2], 'var')):
                return set()
            return set(env.get(e[2], set())) | {('local', e[2])}
        if k == 'global':
            return {('global', e[1])}
        if k in ('arrow', 'dot'):
            if len(e) > 3 and not is_ptr(e[3]) and '[' not in (e[3] or ''):
                return set()
            return self.roots(fn, e[1])
        if k == 'idx':
            return self.roots(fn, e[1])
        if k == 'un':
            if e[1] in ('*', '&', 'post++', 'post--', 'pre++', 'pre--'):
                return self.roots(fn, e[2])
            return set()
        if k == 'bin':
            if e[1] in ('+', '-'):
                return self.roots(fn, e[2]) | self.roots(fn, e[3])
            return set()
        if k == 'cond':
            return self.roots(fn, e[2]) | self.roots(fn, e[3])
        if k == 'assign':
            return self.roots(fn, e[3])
        if k == 'compound':
            return {'fresh'}
        if k == 'call':
            nm = ir.callee_name(e)
            if nm is None:
                return {'unknown'}
            if ir.as_stack(e) is not None:
                return {'fresh'}
            if nm in FRESH:
                return {'fresh'}
            if nm in PASS_THROUGH:
                i = PASS_THROUGH[nm]
                return self.roots(fn, e[2][i]) if i < len(e[2]) else set()
            if nm in self.P.noreturn:
                return set()
            callee = self.P.functions.get(nm)
            if callee is not None:
                rt = self.ret_type(nm)
                if not is_ptr(rt):
                    return set()
                rr = self.ret_roots(nm)
                out = set()
                for tok in rr:
                    if isinstance(tok, tuple) and tok[0] == 'param':
                        if tok[1] < len(e[2]):
                            out |= self.roots(fn, e[2][tok[1]])
                    else:
                        out.add(tok)
                return out
            rt = self.ret_type(nm)
            if rt is not None and not is_ptr(rt):
                return set()
            return {'unknown'}
        return set()

    def ret_roots(self, name):
        """root tokens (in terms of the callee's own parameters) of its return value"""
        if name in self._ret:
            return self._ret[name]
        if name in self._busy:
            return {'unknown'}
        self._busy.add(name)
        f = self.P.functions[name]
        out = set()
        try:
            for s in ir.stmts(f['body']):
                if s['k'] == 'return' and s['expr'] is not None:
                    for tok in self.roots(f, s['expr']):
                        if isinstance(tok, tuple) and tok[0] == 'local':
                            continue
                        out.add(tok)
        finally:
            self._busy.discard(name)
        self._ret[name] = out
        return out

    def param_roots(self, fn, e):
        """roots restricted to parameters/fresh/unknown/global (locals resolved)"""
        return {t for t in self.roots(fn, e) if not (isinstance(t, tuple) and t[0] == 'local')}

    # -- mutation ----------------------------------------------------------------
    def mutated_params(self, name, unit=None):
        """indices of pointer parameters whose reachable state `name` may mutate.
        Library primitives and Cello's public mutating operations come from the
        frozen tables; functions of the caller's own unit are summarised from
        their bodies; anything else (dispatch layer: type_of, instance, cast,
        len, eq, ... whose only stores are idempotent memoisation) is pure."""
        if name in LIBC_MUT and name not in self.P.functions:
            return set(LIBC_MUT[name])
        if name in CELLO_MUT:
            return set(CELLO_MUT[name])
        f = self.P.functions.get(name)
        if f is None:
            return set()
        if unit is not None and f['unit'] != unit:
            return set()
        key = (f['unit'], f['name'])
        if key in self._mut:
            return self._mut[key]
        if key in self._busy:
            return set()
        self._busy.add(key)
        out = set()
        try:
            for ev in self.mutations(f):
                for tok in ev['roots']:
                    if isinstance(tok, tuple) and tok[0] == 'param':
                        out.add(tok[1])
        finally:
            self._busy.discard(key)
        self._mut[key] = out
        return out

    def mutations(self, fn, body_events=None):
        """mutation events of fn: [{'node'?, 'line', 'what', 'roots'}] — every
        store through a non-local lvalue and every call that mutates an argument."""
        out = []
        self.local_env(fn)
        for e, ln in ir.all_exprs(fn['body']):
            out.extend(self.expr_mutations(fn, e, ln))
        return out

    def expr_mutations(self, fn, e, line=None, node=None):
        out = []
        for i, ev in enumerate(util.expr_events(e, node)):
            m = self.event_mutation(fn, ev)
            if m is not None:
                m['line'] = line if line is not None else (node['line'] if node else None)
                m['index'] = i
                out.append(m)
        return out

    def event_mutation(self, fn, ev):
        if ev['t'] == 'write':
            lhs = ir.top_nocast(ev['lhs'])
            if lhs[0] in ('local', 'param'):
                return None
            if lhs[0] in ('arrow', 'dot', 'idx'):
                r = self.param_roots(fn, lhs[1])
            elif lhs[0] == 'un' and lhs[1] == '*':
                r = self.param_roots(fn, lhs[2])
            elif lhs[0] == 'global':
                r = {('global', lhs[1])}
            else:
                r = {'unknown'}
            return {'what': 'store %s %s' % (ir.fmt(lhs), ev['op']), 'roots': r, 'kind': 'store', 'lhs': lhs, 'ev': ev}
        if ev['t'] == 'call':
            nm = ev['name']
            if nm is None:
                return None
            mp = self.mutated_params(nm, fn['unit'])
            if not mp:
                return None
            r = set()
            for i in mp:
                if i < len(ev['args']):
                    r |= self.param_roots(fn, ev['args'][i])
            if not r:
                return None
            return {'what': 'call %s' % ir.fmt(ev['expr'])[:120], 'roots': r, 'kind': 'call', 'name': nm, 'ev': ev}
        return None
