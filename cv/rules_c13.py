"""C13 — threads are isolated from each other; join publishes; Mutex excludes (structural necessary conditions)."""
from . import ir, util
from .report import site
from .front import AnalysisBroken
from .rules_c12 import guards_of, throw_only, succ_of

# file-scope / static storage that may be written after start-up, each with the reason it is tolerated
ALLOWED_SHARED = {
    'Thread_TLS_Key_Created': 'once-only flag guarding creation of the thread-specific key (set before the first thread is started)',
    'Thread_Key_Wrapper': 'the pthread key itself, written once by pthread_key_create',
    'Thread_Main': 'wrapper object of the main thread, created on first use by the main thread',
    'Exception_Main': 'exception record of the main thread, created together with Thread_Main',
}


def check_shared_state(P, ctx):
    rule = 'C13.no-shared-state'
    seen = {}
    for fn in P.all_functions():
        if not fn['unit'].startswith('src/'):
            continue
        # static locals that are written
        statics = {}
        for s_ in ir.stmts(fn['body']):
            if s_['k'] == 'decl':
                for d in s_['decls']:
                    if d['static']:
                        statics[d['id']] = d
        for e, ln in ir.all_exprs(fn['body']):
            for ev in util.expr_events(e, None):
                tgt = None
                if ev['t'] == 'write':
                    l = ir.top_nocast(ev['lhs'])
                    base = l
                    while base[0] in ('dot', 'idx'):
                        base = ir.top_nocast(base[1])
                    if base[0] == 'global':
                        tgt = base[1]
                    elif base[0] == 'local' and base[2] in statics:
                        tgt = '%s (static local of %s)' % (base[1], fn['name'])
                elif ev['t'] == 'call':
                    for a in ev['args']:
                        a = ir.top_nocast(a)
                        if a[0] == 'un' and a[1] == '&' and ir.top_nocast(a[2])[0] == 'global' and not ev['name'] in ('memset',):
                            g_ = P.globals.get(ir.top_nocast(a[2])[1])
                            if g_ is not None and g_.get('file', '').startswith('src/'):
                                tgt = ir.top_nocast(a[2])[1]
                if tgt is not None:
                    seen.setdefault(tgt, []).append((fn, ln))
    for name, sites in sorted(seen.items()):
        fn, ln = sites[0]
        ok = name in ALLOWED_SHARED
        ctx.check(ok, rule, name, site(fn, ln),
                  ('tolerated shared variable: ' + ALLOWED_SHARED[name]) if ok else
                  'mutable file-scope/static state `%s` is written at run time (%d sites, first in %s): state shared by all threads without synchronisation — '
                  'per-thread data (collector, exception record, caches of them) must live in the thread\'s own storage' % (name, len(sites), fn['name']))
    # none at all in the collector, the exception machinery and the allocator
    for unit in ('src/GC.c', 'src/Exception.c', 'src/Alloc.c'):
        inunit = [n for n, s_ in seen.items() if any(f['unit'] == unit for f, _ in s_)]
        ctx.check(not inunit, rule, 'none-in:' + unit, unit, 'no run-time-written file-scope or static storage in %s' % unit, ['written: %s' % inunit] if inunit else None)
    ctx.floor(rule, 7)


def check_thread_run(P, ctx):
    rule = 'C13.own-singletons'
    fn = P.fn('Thread_Init_Run')
    g = P.cfg(fn)
    ctx.fn(fn)
    N = util.Norm(P, fn)
    sets = [(n, c) for (n, c) in g.nodes_calling('pthread_setspecific')]
    news = [(n, c) for (n, c) in g.nodes_calling('new_raw_with')]
    user = [n for (n, c) in g.nodes_calling('call_with')]
    ok = len(sets) == 1 and len(news) >= 2 and len(user) == 1
    if ok:
        sn, sc = sets[0]
        ok = N.canon(sc[2][0]) == ('global', 'Thread_Key_Wrapper') and N.canon(sc[2][1]) == ('param', 0)
        ok = ok and all(g.must_pass(n['id'], [sn['id']]) for n, c in news) and g.must_pass(user[0]['id'], [sn['id']])
        kinds = {ir.top_nocast(c[2][0])[1] for n, c in news}
        ok = ok and {'GC', 'Exception'} <= kinds and all(g.must_pass(user[0]['id'], [n['id']]) for n, c in news)
    ctx.check(ok, rule, 'Thread_Init_Run', site(fn), 'a new thread first binds the thread-specific key to its own wrapper, then creates its own collector and exception record (which attach to current(Thread)), and only then runs the user function')
    # Thread_Current returns the wrapper bound to this thread — evaluated (cint) for: key created or not yet, a wrapper bound to the
    # calling thread or none, the main wrapper existing or not yet
    from . import cint
    fn = P.fn(P.slot('Thread', 'Current', 'current'))
    ctx.fn(fn)
    KEY, WRAP, MAIN, NEWT = 5500, 6200, 6100, 6300
    bad, unsup, ncase = None, None, 0
    for created in (0, 1):
        for wrapper in (0, WRAP):
            for main in (0, MAIN):
                atoms = {('global', 'NULL'): 0, ('global', 'Thread_TLS_Key_Created'): created, ('global', 'Thread_Key_Wrapper'): KEY,
                         ('global', 'Thread_Main'): main, ('global', 'Exception_Main'): 0}
                ev_ = []

                def call(nm, e, it, wrapper=wrapper, ev_=ev_):
                    if nm == 'pthread_getspecific':
                        if it.ev(e[2][0]) != KEY:
                            raise cint.NoEval('pthread_getspecific on another key')
                        ev_.append('get')
                        return wrapper
                    if nm in ('pthread_key_create', 'atexit', 'pthread_setspecific', 'Thread_TLS_Key_Create'):
                        return 0
                    if nm == 'pthread_self':
                        return 77
                    if nm == 'new_raw_with':
                        t_ = ir.top_nocast(e[2][0])
                        return NEWT if t_ == ('global', 'Thread') else NEWT + 1
                    raise cint.NoEval('call %s' % nm)
                it = cint.CInt(P, fn, atoms=atoms, call=call, recurse=True, memw=lambda a, v, w, it_: None, mem=lambda a, it_: 0, strict=True)
                it.atoms = atoms
                r = it.run([])
                ncase += 1
                lab = 'key %s, %s, main wrapper %s' % ('created' if created else 'not created yet', 'a wrapper bound to this thread' if wrapper else 'no wrapper bound', 'exists' if main else 'does not exist yet')
                if r[0] != 'ret':
                    unsup = unsup or '%s: %s' % (lab, r[1])
                    continue
                want = wrapper if wrapper else (main or NEWT)
                if r[1] != want:
                    bad = bad or '%s: returns %s' % (lab, {WRAP: 'the bound wrapper', MAIN: 'the main wrapper', NEWT: 'a new main wrapper', 0: 'NULL'}.get(r[1], r[1]))
                elif wrapper and atoms[('global', 'Thread_Main')] != main:
                    bad = bad or '%s: the main wrapper is replaced' % lab
    ctx.stats['paths'] += ncase
    if unsup and not bad:
        ctx.undecided(rule, 'Thread_Current', site(fn), 'leaves the evaluated fragment: ' + unsup)
    else:
        ctx.check(bad is None, rule, 'Thread_Current', site(fn), 'current(Thread) is the wrapper stored under this thread\'s key; only a thread without one (the main thread) gets the main wrapper '
                  '(%d cases evaluated)' % ncase, [bad] if bad else None)
    # collector and exception record are looked up in the calling thread's own table
    from .rules_c06 import validate_current
    for T in ('GC', 'Exception'):
        before = len(ctx.obs)
        validate_current(P, ctx, T, rule)
    # thread-local table is per Thread object
    fn = P.fn(P.slot('Thread', 'New', 'construct_with'))
    N = util.Norm(P, fn)
    st = [(N.canon(ev['lhs']), ev['rhs']) for e, _ in ir.all_exprs(fn['body']) for ev in util.expr_events(e, None) if ev['t'] == 'write']
    ok = any(l == ('arrow', ('param', 0), 'tls') and any(ir.callee_name(c) == 'new_raw_with' and ir.top_nocast(c[2][0]) == ('global', 'Table') for c in ir.calls(r)) for l, r in st)
    ctx.check(ok, rule, 'Thread_New', site(fn), 'every Thread object gets its own freshly created thread-local table')
    ctx.floor(rule, 5)


def check_attach(P, ctx):
    """the collector and the exception record a thread creates for itself replace whatever its thread-local table held under the
    reserved key (a Thread copied from a running one starts with the parent's entries): the constructor stores itself there on every
    path, or the new thread keeps allocating into — and collecting with — another thread's collector"""
    rule = 'C13.own-singletons'
    for T in ('GC', 'Exception'):
        fn = P.fn(P.slot(T, 'New', 'construct_with'))
        g = P.cfg(fn)
        ctx.fn(fn)
        N = util.Norm(P, fn, expand_locals=True, keep={'current', 'set'})
        sets = []
        for (n, c) in g.nodes_calling('set'):
            a = [N.canon(x) for x in c[2]]
            if len(a) == 3 and a[0][0] == 'call' and ir.callee_name(a[0]) == 'current' and a[0][2][0] == ('global', 'Thread') and a[2] == ('param', 0):
                sets.append(n)
        ok = bool(sets) and g.must_pass(g.exit, [n['id'] for n in sets])
        ctx.check(ok, rule, '%s_New:attaches' % T, site(fn), 'the constructor stores the new %s in the calling thread\'s table on every path (replacing an inherited entry)' % (
            'collector' if T == 'GC' else 'exception record'))
    # the OS mutex exists from construction on: created by the constructor on every path and by nobody else (a lazily created mutex is
    # re-initialised under a thread that already holds it)
    rule = 'C13.primitives'
    fn = P.fn(P.slot('Mutex', 'New', 'construct_with'))
    g = P.cfg(fn)
    ctx.fn(fn)
    inits = [n for (n, c) in g.nodes_calling('pthread_mutex_init')]
    ok = len(inits) == 1 and g.must_pass(g.exit, [inits[0]['id']])
    others = [f['name'] for f in P.all_functions() if f['unit'].startswith('src/') and f is not fn and f.get('body') is not None and
              any(ir.callee_name(c) == 'pthread_mutex_init' for c, _ in ir.all_calls(f['body']))]
    ctx.check(ok and not others, rule, 'Mutex_New:initialises', site(fn), 'the constructor initialises the OS mutex on every path, and no other function does',
              ['also initialised in: %s' % ', '.join(others)] if others else None)


def check_foreign_objects(P, ctx):
    """a thread's collector finalises only what is in its own registry: a deletion of a pointer it does not hold (an object of another
    thread's collector, handed over through shared memory) must leave it alone — evaluated on small registries (gcmodel)"""
    from . import gcmodel
    rule = 'C13.foreign-objects-untouched'
    res = gcmodel.eval_registry(P)
    fn = P.fn('GC_Rem_Ptr')
    ctx.fn(fn)
    out = res['unregistered_rem']
    if res['unsup'].get('rem') and not out:
        ctx.undecided(rule, 'GC_Rem_Ptr', site(fn), 'leaves the evaluated fragment: ' + res['unsup']['rem'])
    else:
        ctx.check(out <= {'nothing'}, rule, 'GC_Rem_Ptr', site(fn), 'removing a pointer that is not in the calling thread\'s registry finalises nothing and changes nothing',
                  ['outcome: %s' % ', '.join(sorted(out))] if not out <= {'nothing'} else None)
    ctx.floor(rule, 1)


def eval_thread_assign(P):
    """Thread's assign (the path copy(thread) takes), evaluated for a target with and without a table of its own.
    -> (problem with sharing, problem with the table's allocation class, unsupported)"""
    from . import cint
    fn = P.fn(P.slot('Thread', 'Assign', 'assign'))
    OWN, SRC, NEWT = 6000, 6100, 6200
    shared, klass, unsup = None, None, None
    for own in (0, OWN):
        atoms = {('global', 'NULL'): 0, ('elem', 't', 0, 'tls'): own, ('elem', 'o', 0, 'tls'): SRC, ('elem', 't', 0, 'func'): 1, ('elem', 'o', 0, 'func'): 2}
        ev_ = []

        def call(nm, e, it):
            if nm == 'cast':
                return it.ev(e[2][0])
            if nm in ('alloc_raw', 'new_raw_with'):
                ev_.append(('raw',))
                return NEWT
            if nm in ('alloc', 'new_with', 'alloc_root', 'new_root_with'):
                ev_.append(('managed', nm))
                return NEWT
            if nm == 'assign':
                ev_.append(('assign', it.ev(e[2][0]), it.ev(e[2][1])))
                return it.ev(e[2][0])
            if nm in ('del_raw', 'del', 'dealloc_raw'):
                ev_.append(('del', it.ev(e[2][0])))
                return 0
            raise cint.NoEval('call %s' % nm)
        it = cint.CInt(P, fn, atoms=atoms, call=call, recurse=False, strict=True)
        it.atoms = atoms
        r = it.run([('ep', 't', 0), ('ep', 'o', 0)])
        lab = 'target %s a table of its own' % ('with' if own else 'without')
        if r[0] != 'ret':
            unsup = unsup or '%s: %s' % (lab, r[1])
            continue
        tls = atoms[('elem', 't', 0, 'tls')]
        if tls in (SRC, 0):
            shared = shared or '%s: afterwards its table is %s' % (lab, 'the source thread\'s own table (the two threads share their thread-local storage, collector and exception record entries included)' if tls == SRC else 'missing')
        elif ('assign', tls, SRC) not in ev_:
            shared = shared or '%s: its table is not filled from the source\'s' % lab
        if any(x[0] == 'managed' for x in ev_):
            klass = klass or '%s: the table is created with %s: it is registered with the collector, while the Thread marks only its contents and releases it with del_raw' % (lab, [x[1] for x in ev_ if x[0] == 'managed'][0])
    return shared, klass, unsup


def check_thread_assign(P, ctx, rule='C13.own-singletons', which='shared'):
    shared, klass, unsup = eval_thread_assign(P)
    fn = P.fn(P.slot('Thread', 'Assign', 'assign'))
    ctx.fn(fn)
    bad = shared if which == 'shared' else klass
    if unsup and not bad:
        ctx.undecided(rule, 'Thread_Assign', site(fn), 'leaves the evaluated fragment: ' + unsup)
    elif which == 'shared':
        ctx.check(bad is None, rule, 'Thread_Assign', site(fn), 'a Thread that is assigned (copied) gets a thread-local table of its own, filled from the source\'s', [bad] if bad else None)
    else:
        ctx.check(bad is None, rule, 'Thread_Assign', site(fn), 'the table a copied Thread gets is allocated raw, as the constructor\'s is: the destructor releases it with del_raw and the collector never sees it', [bad] if bad else None)


def check_call_join(P, ctx):
    rule = 'C13.primitives'
    fn = P.fn(P.slot('Thread', 'Call', 'call_with'))
    g = P.cfg(fn)
    ctx.fn(fn)
    N = util.Norm(P, fn, keep={'alloc_raw', 'type_of', 'assign'})
    cr = [(n, c) for (n, c) in g.nodes_calling('pthread_create')]
    st = [n for n in g.live() if n['kind'] == 'stmt' and n['expr'] is not None and N.canon(n['expr'])[0] == 'assign' and N.canon(n['expr'])[2] == ('arrow', ('param', 0), 'args')]
    ok = len(cr) == 1 and len(st) == 1 and g.must_pass(cr[0][0]['id'], [st[0]['id']])
    if ok:
        rhs = N.canon(st[0]['expr'])[3]
        ok = rhs[0] == 'call' and ir.callee_name(rhs) == 'assign' and any(ir.callee_name(c) == 'alloc_raw' for c in ir.calls(rhs)) and rhs[2][1] == ('param', 1)
        a = [N.canon(x) for x in cr[0][1][2]]
        ok = ok and a[0] == ('un', '&', ('arrow', ('param', 0), 'thread')) and a[2] == ('func', 'Thread_Init_Run') and a[3] == ('param', 0)
    ctx.check(ok, rule, 'Thread_Call', site(fn), 'the argument tuple is copied to the heap and stored in the Thread before the OS thread is created with Thread_Init_Run on this Thread object')
    # join: pthread_join on the thread's handle on every path that has a handle
    fn = P.fn(P.slot('Thread', 'Start', 'join'))
    g = P.cfg(fn)
    ctx.fn(fn)
    N = util.Norm(P, fn)
    js = [(n, c) for (n, c) in g.nodes_calling('pthread_join')]
    ok = len(js) == 1 and N.canon(js[0][1][2][0]) == ('arrow', ('param', 0), 'thread')
    detail = None
    if ok:
        # every normal exit that does not pass the join leaves through the `no handle` test only
        reach = g.reach_from(g.entry, cut_nodes=[js[0][0]['id']])
        handle = ('arrow', ('param', 0), 'thread')
        hg = [n for n in g.live() if n['kind'] == 'cond' and N.canon(n['expr']) in (handle, ir.canon(('bin', '==', handle, ('int', 0))), ir.canon(('bin', '!=', handle, ('int', 0))))]
        cut = []
        for n in hg:
            c = N.canon(n['expr'])
            no_handle_pol = False if c == handle or (c[0] == 'bin' and c[1] == '!=') else True
            cut.append((n['id'], no_handle_pol))
        reach2 = g.reach_from(g.entry, cut_nodes=[js[0][0]['id']], cut_edges=cut)
        escapes = [g.nodes[i] for i in reach2 if g.nodes[i]['kind'] in ('ret', 'exit')]
        ok = not escapes
        if escapes:
            detail = ['join can return without pthread_join at %s' % g.describe(escapes[0])]
    ctx.check(ok, rule, 'Thread_Join', site(fn), 'join calls pthread_join on the thread\'s own handle on every path, except when the Thread has no handle at all', detail)
    # mutex
    for m, lib, what in (('lock', 'pthread_mutex_lock', 'lock'), ('unlock', 'pthread_mutex_unlock', 'unlock'), ('trylock', 'pthread_mutex_trylock', 'trylock')):
        fn = P.fn(P.slot('Mutex', 'Lock', m))
        g = P.cfg(fn)
        ctx.fn(fn)
        N = util.Norm(P, fn, keep={'cast'})
        cs = [(n, c) for (n, c) in g.nodes_calling(lib)]
        cs = [(n, c) for (n, c) in cs if any(x is c or x == c for x in util.unconditional_calls(n['expr']))] if len(cs) == 1 else cs
        ok = len(cs) == 1 and g.must_pass(g.exit, [cs[0][0]['id']]) or (len(cs) == 1 and all(g.must_pass(r['id'], [cs[0][0]['id']]) for r in g.live() if r['kind'] in ('ret',)) and
                                                                       g.must_pass(g.exit, [cs[0][0]['id']]))
        if len(cs) == 1:
            a = N.canon(cs[0][1][2][0])
            base = a[2][1] if a[0] == 'un' and a[1] == '&' and a[2][0] == 'arrow' and a[2][2] == 'mutex' else None
            if base is not None and base[0] == 'local':
                dd = [d for s_ in ir.stmts(fn['body']) if s_['k'] == 'decl' for d in s_['decls'] if d['name'] == base[1] and d['init'] is not None]
                if len(dd) == 1:
                    base = N.canon(dd[0]['init'])
            okb = base == ('param', 0) or (base is not None and base[0] == 'call' and ir.callee_name(base) == 'cast' and base[2][0] == ('param', 0))
            ok = ok and okb
        ctx.check(ok, rule, 'Mutex_%s' % what, site(fn), '%s is %s on the object\'s own mutex, on every path' % (m, lib))
    fn = P.fn(P.slot('Mutex', 'Lock', 'trylock'))
    from . import cint
    ok, detail = True, []
    for err, want in ((0, ('ret', 1)), (16, ('ret', 0))):          # 16: EBUSY
        def call(nm, e, it, err=err):
            if nm == 'pthread_mutex_trylock':
                return err
            if nm == 'cast':
                return it.ev(e[2][0])
            raise cint.NoEval('call %s' % nm)
        r = cint.CInt(P, fn, call=call).run([5000])
        if r[0] == 'stuck':
            ok = False
            detail.append('not evaluated: %s' % r[1])
        elif (r[0], r[1]) != want:
            ok = False
            detail.append('pthread_mutex_trylock returning %s: %s' % ('EBUSY' if err else '0', 'returns %s' % (r[1],) if r[0] == 'ret' else 'does not return'))
    ctx.check(ok, rule, 'Mutex_trylock:result', site(fn), 'trylock reports failure when pthread_mutex_trylock returned EBUSY and success when it returned 0 (evaluated)', detail)
    ok = P.slot('Mutex', 'Start', 'start') == P.slot('Mutex', 'Lock', 'lock') and P.slot('Mutex', 'Start', 'stop') == P.slot('Mutex', 'Lock', 'unlock')
    ctx.check(ok, rule, 'Mutex:with', 'src/Thread.c', 'a with block on a Mutex locks on entry and unlocks on exit (the Start slots are the lock/unlock functions)')
    ctx.floor(rule, 8)


def check_with_locks(P, ctx):
    """`with (m in mutex)` enters through start_in: whenever the object's type has a Start.start member, start_in calls it — on
    every path (a path that returns without calling it lets a second thread into the critical section), and Mutex's start / stop
    members are its lock / unlock."""
    rule = 'C13.with-locks'
    fn = P.fn('start_in')
    g = P.cfg(fn)
    ctx.fn(fn)
    NX = util.Norm(P, fn, expand_locals=True, inline=False)
    calls = [n for n in g.live() if n['expr'] is not None and any(ir.callee_name(c) is None and ir.top_nocast(c[1])[0] == 'arrow' and ir.top_nocast(c[1])[2] == 'start'
                                                                 for c in ir.calls(n['expr']))]
    # the only ways round the call: no Start instance, or no start member
    allowed = []
    for n in g.live():
        if n['kind'] != 'cond':
            continue
        c = NX.canon(n['expr'])
        if c[0] == 'call' and ir.callee_name(c) in ('instance', 'type_instance'):
            allowed.append((n['id'], False))
        elif c[0] == 'arrow' and c[2] == 'start':
            allowed.append((n['id'], False))
        elif c[0] == 'bin' and c[1] in ('==', '!=') and ('int', 0) in (c[2], c[3]):
            o = c[3] if c[2] == ('int', 0) else c[2]
            if (o[0] == 'call' and ir.callee_name(o) in ('instance', 'type_instance')) or (o[0] == 'arrow' and o[2] == 'start'):
                allowed.append((n['id'], c[1] == '=='))
    ok = len(calls) >= 1 and g.exit not in g.reach_from(g.entry, cut_nodes=[n['id'] for n in calls], cut_edges=allowed)
    ctx.check(ok, rule, 'start_in', site(fn), 'start_in calls the Start.start member on every path on which the object has one')
    st = P.slot('Mutex', 'Start', 'start', required=False)
    sp = P.slot('Mutex', 'Start', 'stop', required=False)
    lk = P.slot('Mutex', 'Lock', 'lock', required=False)
    ul = P.slot('Mutex', 'Lock', 'unlock', required=False)
    ctx.check(st is not None and st == lk and sp is not None and sp == ul, rule, 'Mutex.Start', site(P.fn(lk)) if lk else '',
              'entering / leaving a with block on a Mutex is its lock / unlock', ['start=%s stop=%s lock=%s unlock=%s' % (st, sp, lk, ul)])
    ctx.floor(rule, 2)


def run(ctx, load):
    P = load(None, 'default')
    ctx.stats['units'] = set(P.units)
    ctx.stats['configs'] = ['default']
    check_shared_state(P, ctx)
    check_thread_run(P, ctx)
    check_call_join(P, ctx)
    check_attach(P, ctx)
    # the method cache lives in the type records every thread dispatches through: a slot is written once, with the scan's final answer
    # (a provisional value is what another thread reads; shared with C08.cache-wiring)
    from . import rules_c08
    P8 = load(None, 'default', [rules_c08.WITNESS])
    ctx.config = 'default'
    ctx.borrow('C13.shared-cache-holds-final-answers', 3, lambda: rules_c08.check_cache(P8, ctx))
    check_thread_assign(P, ctx)
    check_foreign_objects(P, ctx)
    check_with_locks(P, ctx)


EXPLANATION = (
    'Decided: (a) no-shared-state — the only file-scope/static storage written at run time is a frozen, reasoned list (the TLS key and its '
    'once flag, the main thread\'s wrapper and exception record); none in the collector, the exception machinery or the allocator; a new '
    'shared variable (e.g. a cache of the current collector) is refuted; (b) own-singletons — a thread binds its key to its own wrapper '
    'before creating its collector and exception record, which are looked up through current(Thread) under one key each; Thread_Current '
    'returns the bound wrapper; every Thread has its own table; (c) primitives — arguments are copied before the OS thread starts; join '
    'reaches pthread_join on the thread\'s handle on every path that has one; lock/unlock/trylock map to the pthread calls on the object\'s '
    'own mutex; trylock fails exactly on EBUSY; with = lock/unlock. Not decided: schedules, memory visibility, the benign first-use races '
    'of the tolerated once-flags.')
