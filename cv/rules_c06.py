"""C06 — every managed object is finalised exactly once; teardown returns everything."""
from . import ir, util
from .report import site
from .front import AnalysisBroken

UNITS = ['src/Alloc.c', 'src/GC.c', 'src/Get.c', 'src/Pointer.c', 'src/Thread.c', 'src/Exception.c', 'src/Function.c']
WITNESS = ['/verif/witness/main_wrapper.c', '/verif/witness/macros.c']


def generic_dispatch(P, gname):
    """decode `method(self, C, m, args...)` in the body of a public generic:
    returns (C, m, arg_exprs) or None"""
    f = P.functions.get(gname)
    if f is None:
        return None
    defs = util.single_defs(f)
    for c, ln in ir.all_calls(f['body']):
        callee = ir.top_nocast(c[1])
        if callee[0] == 'arrow':
            base = ir.top_nocast(callee[1])
            if base[0] == 'local' and base[2] in defs:          # the instance held in a local first
                base = ir.top_nocast(defs[base[2]])
            if base[0] == 'call' and ir.callee_name(base) in ('method_at_offset', 'type_method_at_offset'):
                cls = ir.top_nocast(base[2][1])
                mname = ir.top_nocast(base[2][3])
                if cls[0] == 'global' and mname == ('str', callee[2]):
                    return (cls[1], callee[2], c[2], ir.top_nocast(base[2][0]))
    return None


def validate_current(P, ctx, T, rule):
    """current(T) yields the T object its constructor registered under the same thread-local key"""
    cur = P.slot(T, 'Current', 'current')
    new = P.slot(T, 'New', 'construct_with')
    fc, fnw = P.fn(cur), P.fn(new)
    key_r = key_w = None
    for c, _ in ir.all_calls(fc['body']):
        if ir.callee_name(c) == 'get' and len(c[2]) == 2:
            st = ir.as_stack(c[2][1])
            a0 = ir.top_nocast(c[2][0])
            if st and st[0] == 'String' and a0[0] == 'call' and ir.callee_name(a0) == 'current' and ir.top_nocast(a0[2][0]) == ('global', 'Thread'):
                key_r = ir.top_nocast(st[1][0])
    selfs = {('param', fnw['params'][0][0], 0)} | util.aliases_of_param(fnw, 0)
    for c, _ in ir.all_calls(fnw['body']):
        if ir.callee_name(c) == 'set' and len(c[2]) == 3:
            st = ir.as_stack(c[2][1])
            a0 = ir.top_nocast(c[2][0])
            if st and st[0] == 'String' and ir.top_nocast(c[2][2]) in selfs and a0[0] == 'call' and ir.callee_name(a0) == 'current':
                key_w = ir.top_nocast(st[1][0])
    ok = key_r is not None and key_r == key_w
    ctx.check(ok, rule, 'current(%s)' % T, site(fc), 'current(%s) reads the thread-local slot %s that %s stores `self` under, so '
              'operations dispatched on current(%s) run the %s instance' % (T, ir.fmt(key_r), new, T, T))
    return ok


def exit_descriptor(g, node, N=None):
    """structural name of a normal exit: the branch conditions that lead directly to it
    (`return@<cond>=T|...`; the fall-off end of the function is named the same way, so `if (!c) return; work;` and
    `if (c) { work; }` give the same name), or `end` for the fall-off end reached unconditionally"""
    conds = []
    seen = set()
    stack = [(p, l) for (p, l) in node['pred']]
    while stack:
        p, l = stack.pop()
        if (p, l) in seen:
            continue
        seen.add((p, l))
        pn = g.nodes[p]
        if pn['kind'] == 'cond':
            conds.append('%s=%s' % (ir.fmt(N.canon(pn['expr']) if N else ir.canon(pn['expr'])), 'T' if l else 'F'))
        elif pn['kind'] == 'join':
            stack.extend(pn['pred'])
    if not conds and node['kind'] == 'exit':
        return 'end'
    if not conds:
        return 'return-after(%s)' % (ir.fmt(ir.canon(g.nodes[node['pred'][0][0]]['expr']))[:40] if node['pred'] and g.nodes[node['pred'][0][0]]['expr'] is not None else 'entry')
    return 'return@' + '|'.join(sorted(conds))


class Fin:
    """does every normal exit of f finalise (dealloc(destruct(p))) its pointer parameter exactly once?"""

    def __init__(self, P, ctx):
        self.P = P
        self.ctx = ctx
        self.memo = {}
        self.exits = {}    # key -> dict(verdict, site, what, detail)
        self.disp = {}

    def resolve_call(self, fn, ev, eq):
        """-> (callee name, param index the pointer is passed as, consts{idx: enum}) or None"""
        nm = ev['name']
        args = ev['args']
        if nm is None:
            return None
        hit = [i for i, a in enumerate(args) if ir.canon(a) in eq]
        if not hit:
            return None
        if nm in ('destruct', 'dealloc'):
            return None
        gd = self.disp.get(nm)
        if nm not in self.disp:
            gd = generic_dispatch(self.P, nm)
            self.disp[nm] = gd
        if gd is not None and args:
            C, m, gargs, recv = gd
            r = ir.top_nocast(args[0])
            if r[0] == 'call' and ir.callee_name(r) == 'current' and ir.top_nocast(r[2][0])[0] == 'global':
                T = ir.top_nocast(r[2][0])[1]
                tgt = self.P.slot(T, C, m, required=False)
                if tgt:
                    # generic passes its parameters through in order
                    return (tgt, hit[0], {})
            return None
        if nm in self.P.functions:
            if not self.P.reaches(nm, {'dealloc', 'rem'}, depth=5):
                return None     # cannot release anything: a pure use of the pointer (hashing, lookup)
            consts = {}
            for i, a in enumerate(args):
                t = ir.top_nocast(a)
                if t[0] == 'enum':
                    consts[i] = t
            return (nm, hit[0], consts)
        return None

    def analyse(self, fname, pidx, consts=None, depth=0):
        consts = consts or {}
        key = (fname, pidx, tuple(sorted(consts.items())))
        if key in self.memo:
            return self.memo[key]
        self.memo[key] = True   # recursion guard: assume ok
        P = self.P
        fn = P.fn(fname)
        self.ctx.fn(fn)
        if fname == 'GC_Rem_Ptr' and pidx == 1:
            # the registry's removal is judged by what it does, not by which of its returns it takes: evaluated on small registries
            # (gcmodel) for a registered pointer, an unregistered one, a registry without slots, an unregistered pointer that stands on
            # the sweep's pending list
            from . import gcmodel
            res = gcmodel.eval_registry(P)
            s = site(fn)
            all_ok = True
            if res['unsup'].get('rem') and not res['bad'].get('rem'):
                self.exits['GC_Rem_Ptr:registered'] = ('UNDECIDED', s, 'the removal leaves the evaluated fragment: ' + res['unsup']['rem'], None)
                all_ok = False
            elif res['bad'].get('rem'):
                self.exits['GC_Rem_Ptr:registered'] = ('REFUTED', s, 'removing a registered pointer finalises it exactly once, strikes its entry and keeps every other entry findable', [res['bad']['rem']])
                all_ok = False
            else:
                self.exits['GC_Rem_Ptr:registered:finalises'] = ('PROVED', s, 'removing a registered pointer finalises it exactly once (dealloc(destruct(p))), decrements the count and keeps every other '
                                                                  'entry findable (%d steps evaluated on registries whose pointers collide and wrap)' % res['n'], None)
            for scen, outcome, what in (('unregistered', ' / '.join(sorted(res['unregistered_rem'])) or None, 'a pointer that is not in the registry'),
                                        ('no-slots', res['noslots_rem'], 'a pointer, while the registry has no slots'),
                                        ('unregistered-but-pending', res['pending_rem'], 'a pointer that is not in the registry but stands on the sweep\'s pending list')):
                if outcome is None:
                    continue
                if outcome.startswith('finalised'):
                    self.exits['GC_Rem_Ptr:%s:finalises' % scen] = ('PROVED', s, 'removing %s finalises it once' % what, None)
                elif outcome.startswith('nothing'):
                    self.exits['GC_Rem_Ptr:%s:without-finalise' % scen] = ('REFUTED', s, 'removing %s returns without dealloc(destruct(object)): the object is never finalised%s' % (
                        what, ' (its pending-list entry was cleared, so the sweep skips it too)' if 'struck' in outcome else ''), [outcome])
                    all_ok = False
                else:
                    self.exits['GC_Rem_Ptr:%s' % scen] = ('UNDECIDED' if outcome.startswith('stuck') else 'REFUTED', s, 'removing %s: %s' % (what, outcome), None)
                    all_ok = False
            self.memo[key] = all_ok
            return all_ok
        g = P.cfg(fn)
        base_eq = {('param', pidx)}
        for a in util.aliases_of_param(fn, pidx):
            base_eq.add(('local', a[1]))
        rets = sorted([n['id'] for n in g.live() if n['kind'] == 'ret'])
        all_ok = True
        classes = {}
        for path in g.paths():
            self.ctx.stats['paths'] += 1
            eq = set(base_eq)
            fin = 0
            delegated = False
            struck = False
            feasible = True
            for ev in util.path_events(path):
                t = ev['t']
                if t == 'switch':
                    se = ir.top_nocast(ev['expr'])
                    if se[0] == 'param' and se[2] in consts:
                        want = ('case', consts[se[2]])
                        if ev['val'] != want:
                            # a label that the constant does not select (fall-through joins are separate nodes)
                            feasible = False
                            break
                elif t == 'cond':
                    c = ir.canon(ev['expr'])
                    if c[0] == 'bin' and ((c[1] == '==' and ev['val']) or (c[1] == '!=' and not ev['val'])):
                        if c[2] in eq:
                            eq.add(c[3])
                        elif c[3] in eq:
                            eq.add(c[2])
                elif t == 'write':
                    lhs = ir.canon(ev['lhs'])
                    rhs = ir.canon(ev['rhs']) if ev['rhs'] is not None else None
                    if lhs[0] == 'local':
                        if rhs in eq:
                            eq.add(lhs)
                        else:
                            eq.discard(lhs)
                    elif lhs[0] == 'idx' and util.mentions_field(lhs, 'freelist') and rhs is not None and ir.is_null(rhs):
                        struck = True
                elif t == 'call':
                    nm = ev['name']
                    if nm == 'dealloc' and ev['args']:
                        a = ir.top_nocast(ev['args'][0])
                        if a[0] == 'call' and ir.callee_name(a) == 'destruct' and ir.canon(a[2][0]) in eq:
                            fin += 1
                        continue
                    rc = self.resolve_call(fn, ev, eq)
                    if rc is not None:
                        callee, j, cs = rc
                        sub = self.analyse(callee, j, cs, depth + 1)
                        if sub:
                            fin += 1
                        else:
                            delegated = True
            if not feasible:
                continue
            end = util.path_end(path)
            if end[0] == 'term':
                continue   # raising exits are not normal exits
            last = end[2]
            rid = exit_descriptor(g, last, util.Norm(P, fn, inline=False))
            cls = '%s:%s%s' % (fname, rid, ':pending-entry-struck' if struck else '')
            c = classes.setdefault(cls, {'n': 0, 'bad': None, 'twice': None, 'line': last['line'], 'delegated': 0})
            c['n'] += 1
            if fin == 0 and not delegated:
                if c['bad'] is None:
                    c['bad'] = util.describe_path(g, path, 16)
            elif fin == 0 and delegated:
                c['delegated'] += 1
            elif fin > 1:
                c['twice'] = util.describe_path(g, path, 16)
        for cls, c in sorted(classes.items()):
            s = site(fn, c['line'])
            if c['twice']:
                self.exits[cls + ':twice'] = ('REFUTED', s, 'a path to this exit finalises the object more than once', c['twice'])
                all_ok = False
            if c['bad'] is not None:
                self.exits[cls + ':without-finalise'] = ('REFUTED', s,
                                                         'a path from the deletion entry point reaches this normal exit without dealloc(destruct(object)): '
                                                         'the object is never finalised' + (' (its pending-list entry was cleared, so the sweep skips it too)' if 'struck' in cls else ''),
                                                         c['bad'])
                all_ok = False
            elif c['delegated'] and c['delegated'] == c['n']:
                all_ok = False   # callee's own exits carry the report
            else:
                self.exits.setdefault(cls + ':finalises', ('PROVED', s, 'every path to this exit passes dealloc(destruct(object)) exactly once', None))
        self.memo[key] = all_ok
        return all_ok


def check_del(P, ctx, ngc=False):
    rule = 'C06.del-finalises'
    if not ngc:
        validate_current(P, ctx, 'GC', rule)
        gd = generic_dispatch(P, 'rem')
        ctx.check(gd is not None and gd[:2] == ('Get', 'rem'), rule, 'dispatch:rem', site(P.fn('rem')),
                  'rem(x, k) calls the Get.rem member of x\'s type with (x, k)')
    F = Fin(P, ctx)
    for entry in ('del', 'del_root', 'del_raw'):
        F.analyse(entry, 0)
    for k, (verdict, s, what, detail) in sorted(F.exits.items()):
        if verdict == 'PROVED':
            ctx.proved(rule, k, s, what)
        elif verdict == 'UNDECIDED':
            ctx.undecided(rule, k, s, what, detail)
        else:
            ctx.refuted(rule, k, s, what, detail)
    ctx.floor(rule, 5 if not ngc else 3)


def check_order(P, ctx):
    """every dealloc of a managed object takes destruct(p) of the same pointer"""
    rule = 'C06.finalise-before-free'
    n = 0
    for up in ('src/GC.c', 'src/Alloc.c', 'src/Pointer.c', 'src/Thread.c'):
        for fname, fn in sorted(P.units[up]['functions'].items()):
            for c, ln in ir.all_calls(fn['body']):
                if ir.callee_name(c) not in ('dealloc', 'dealloc_raw', 'dealloc_root'):
                    continue
                if fname in ('dealloc_raw', 'dealloc_root'):
                    continue   # thin aliases of dealloc
                a = ir.top_nocast(c[2][0])
                ok = a[0] == 'call' and ir.callee_name(a) == 'destruct'
                n += 1
                ctx.check(ok, rule, '%s:%d' % (fname, n), site(fn, ln), 'memory of a managed object is released only as dealloc(destruct(p)) — '
                          'the destructor runs first, on the same pointer', ['call: %s' % ir.fmt(c)])
    ctx.floor(rule, 3)


def check_sweep(P, ctx):
    """the sweep, evaluated on small registries (gcmodel.eval_sweep): every combination of root / marked / neither for pointers whose
    home slots collide and wrap.  One verdict, reported under the aspect it concerns."""
    rule = 'C06.sweep-once'
    from . import gcmodel
    fn = P.fn('GC_Sweep')
    ctx.fn(fn)
    bad, unsup, ncase = gcmodel.eval_sweep(P)
    ctx.stats['paths'] += ncase
    aspects = (('GC_Sweep:guard', 'exactly the entries that are occupied, unmarked and not roots are reclaimed; roots and marked pointers stay registered with their flags, marks cleared'),
               ('GC_Sweep:rescan-after-removal', 'after an entry is reclaimed and the cluster behind it shifted back, the entry that moved into its slot is examined too: every pointer stays findable and none is skipped'),
               ('GC_Sweep:append', 'every reclaimed pointer is put on the pending list once and the count is decremented once per reclaimed pointer'),
               ('GC_Sweep:finalise-pending', 'every pending pointer is finalised once (dealloc(destruct(p))), nothing else is'),
               ('GC_Sweep:pending-capacity', 'the pending list has room for every pointer put on it'))
    which = None
    if bad:
        which = ('GC_Sweep:finalise-pending' if ('finalises' in bad or 'released' in bad) else
                 'GC_Sweep:pending-capacity' if 'pending list is written' in bad else
                 'GC_Sweep:append' if 'the count is' in bad else
                 'GC_Sweep:rescan-after-removal' if ('sits in slot' in bad or 'does not end' in bad) else 'GC_Sweep:guard')
    for key, text in aspects:
        if unsup and not bad:
            ctx.undecided(rule, key, site(fn), 'the sweep leaves the evaluated fragment: ' + unsup)
        else:
            ctx.check(key != which, rule, key, site(fn), text + ' (%d registries evaluated)' % ncase, [bad] if key == which else None)
    # pending-list protocol between the sweep and a re-entrant del: an entry that is still visible on the pending list must not be
    # finalised by both sides (what a deletion does for a pointer that stands on the pending list is evaluated: gcmodel)
    rp = P.fn('GC_Rem_Ptr')
    g = P.cfg(fn)
    pend = gcmodel.eval_registry(P).get('pending_rem') or ''
    both = pend.startswith('finalised') or pend.startswith('other')
    cleared_first = False
    fins = [(n, ev) for n in g.live() if n['expr'] is not None for ev in util.expr_events(n['expr'], n) if ev['t'] == 'call' and ev['name'] == 'dealloc']
    if len(fins) == 1:
        fnode, ev = fins[0]
        # does the sweep clear freelist[i] before finalising it?
        clr = [n for n in g.live() if n['expr'] is not None and any(e2['t'] == 'write' and ir.top_nocast(e2['lhs'])[0] == 'idx' and util.mentions_field(e2['lhs'], 'freelist')
                                                                   and e2['rhs'] is not None and ir.is_null(e2['rhs']) for e2 in util.expr_events(n['expr'], n))]
        cleared_first = any(g.must_pass(fnode['id'], [c['id']]) and fnode['id'] in g.reach_from(c['id']) for c in clr)
    ctx.check((not both) or cleared_first, rule, 'pending-list-protocol', site(rp),
              'a deletion that finds its pointer on the sweep\'s pending list may finalise it itself only if the sweep clears each pending entry before '
              'finalising it; otherwise an object swept before its owner is finalised by the sweep and again by the owner\'s destructor')
    ctx.floor(rule, 6)


def check_teardown(P, ctx):
    rule = 'C06.teardown'
    # GC destructor sweeps without marking and frees the registry storage
    fn = P.fn(P.slot('GC', 'New', 'destruct'))
    g = P.cfg(fn)
    ctx.fn(fn)
    sw = [n for (n, c) in g.nodes_calling('GC_Sweep')]
    mk = [n for (n, c) in g.nodes_calling('GC_Mark')]
    frees = [N_ for N_ in g.live() if N_['expr'] is not None and any(ir.callee_name(c) == 'free' for c in ir.calls(N_['expr']))]
    freed = set()
    N = util.Norm(P, fn)
    for n in frees:
        for c in ir.calls(n['expr']):
            if ir.callee_name(c) == 'free':
                t = N.canon(c[2][0])
                if t[0] == 'arrow' and t[1] == ('param', 0):
                    freed.add(t[2])
    ok = len(sw) == 1 and not mk and g.must_pass(g.exit, [sw[0]['id']]) and 'entries' in freed and \
        all(g.must_pass(n['id'], [sw[0]['id']]) for n in frees)
    ctx.check(ok, rule, 'GC_Del', site(fn), 'collector teardown sweeps without marking (everything that is not a root is finalised), then frees the registry')
    # Cello_Exit deletes the current collector
    fn = P.fn('Cello_Exit')
    cs = [c for c, _ in ir.all_calls(fn['body']) if ir.callee_name(c) == 'del_raw']
    ok = len(cs) == 1 and ir.canon(cs[0][2][0]) == ir.canon(('call', ('func', 'current'), (('global', 'GC'),)))
    ctx.check(ok, rule, 'Cello_Exit', site(fn), 'the exit hook tears down the current thread\'s collector with del_raw')
    # main wrapper: collector created on a local of main's frame; exit hook registered right after
    fn = P.fn('main')
    g = P.cfg(fn)
    news = [n for (n, c) in g.nodes_calling('new_raw_with')]
    ats = [n for (n, c) in g.nodes_calling('atexit')]
    user = [n for (n, c) in g.nodes_calling('Cello_Main')]
    ok = len(news) == 1 and len(ats) == 1 and len(user) == 1
    if ok:
        c = [c for c in ir.calls(news[0]['expr']) if ir.callee_name(c) == 'new_raw_with'][0]
        tp = ir.as_tuple(c[2][1])
        st = ir.as_stack(tp[0]) if tp and len(tp) == 1 else None
        addr = ir.top_nocast(st[1][0]) if st and st[0] == 'Ref' else None
        ok = ir.top_nocast(c[2][0]) == ('global', 'GC') and addr is not None and addr[0] == 'un' and addr[1] == '&' and ir.top_nocast(addr[2])[0] == 'local'
        ac = [c for c in ir.calls(ats[0]['expr']) if ir.callee_name(c) == 'atexit'][0]
        ok = ok and ir.top_nocast(ac[2][0]) == ('func', 'Cello_Exit')
        ok = ok and g.must_pass(user[0]['id'], [ats[0]['id']]) and g.must_pass(ats[0]['id'], [news[0]['id']])
    ctx.check(ok, rule, 'main-wrapper', 'include/Cello.h (main macro)', 'main creates the collector with the address of a local of its own frame, registers Cello_Exit with atexit, then calls the user\'s main')
    # worker threads: creation paired with teardown around the user call
    fn = P.fn('Thread_Init_Run')
    g = P.cfg(fn)
    ctx.fn(fn)
    created = {}
    for n in g.live():
        d = n.get('decl')
        if d and d['init'] is not None:
            for c in ir.calls(d['init']):
                if ir.callee_name(c) == 'new_raw_with':
                    created[ir.top_nocast(c[2][0])[1]] = (n, ('local', d['name']))
    user = [n for (n, c) in g.nodes_calling('call_with')]
    ok = len(user) == 1 and 'GC' in created and 'Exception' in created
    if ok:
        for T, (n, v) in created.items():
            dels = [m for (m, c) in g.nodes_calling('del_raw') if ir.canon(c[2][0]) == v]
            ok = ok and len(dels) == 1 and g.must_pass(user[0]['id'], [n['id']]) and \
                g.must_pass(g.exit, [dels[0]['id']], start=user[0]['id']) and g.must_pass(dels[0]['id'], [user[0]['id']])
        # the exception record is torn down before the collector (its message string is a raw object; order as in the source)
    ctx.check(ok, rule, 'Thread_Init_Run', site(fn), 'a worker thread creates its collector and exception record before the user function and deletes both on every path after it returns')
    ctx.floor(rule, 4)


def check_registered_before_use(P, ctx, rule='C06.registered-before-use'):
    """a managed object is registered with the collector before any user code (constructor, assign) runs on it, so
    that an exception raised there cannot leave it unregistered (never finalised, not even at teardown) — and so that a
    collection triggered *by* the constructor sees it (as a root, or from the stack) and keeps what it already holds"""
    want = {'new_with': ('construct_with', 'alloc'), 'new_root_with': ('construct_with', 'alloc_root'), 'new_raw_with': ('construct_with', 'alloc_raw'), 'copy': ('assign', 'alloc')}
    for fname, (user, allocator) in want.items():
        fn = P.fn(fname)
        g = P.cfg(fn)
        ctx.fn(fn)
        cs = [(n, c) for n in g.live() if n['expr'] is not None for c in ir.calls(n['expr']) if ir.callee_name(c) == user]
        ok = len(cs) == 1
        if ok:
            a0 = ir.top_nocast(util.Norm(P, fn, expand_locals=True, inline=False).canon(cs[0][1][2][0]))      # a local that only holds the allocator's result is the same thing
            ok = a0[0] == 'call' and ir.callee_name(a0) == allocator
            # no separate registration afterwards (that would mean the object was unregistered while user code ran)
            late = [c for c, _ in ir.all_calls(fn['body']) if ir.callee_name(c) == 'set' and c[2] and ir.top_nocast(c[2][0])[0] == 'call' and ir.callee_name(ir.top_nocast(c[2][0])) == 'current']
            ok = ok and not late
        ctx.check(ok, rule, fname, site(fn), '%s hands the result of %s() straight to %s: the object is already registered when its constructor / assign can raise' % (fname, allocator, user))
    ctx.floor(rule, 4)


def check_box(P, ctx):
    rule = 'C06.box'
    fn = P.fn(P.slot('Box', 'New', 'destruct'))
    g = P.cfg(fn)
    ctx.fn(fn)
    dels = [n for (n, c) in g.nodes_calling('del')]
    NI = util.Norm(P, fn, inline=True)
    field = ('arrow', ('param', 0), 'val')
    clears = [n for (n, c) in g.nodes_calling('Box_Ref') if ir.is_null(c[2][1]) and NI.canon(c[2][0]) == ('param', 0)]
    clears += [n for n in g.live() if n['kind'] == 'stmt' and n['expr'] is not None and NI.canon(n['expr'])[0] == 'assign' and NI.canon(n['expr'])[2] == field and ir.is_null(NI.canon(n['expr'])[3])]
    ok = len(dels) == 1 and len(clears) >= 1
    if ok:
        c = [c for c in ir.calls(dels[0]['expr']) if ir.callee_name(c) == 'del'][0]
        v = ir.canon(c[2][0])
        # v is the dereferenced pointee, deleted only when non-null, never twice on a path, pointer cleared afterwards
        d = [n for n in g.live() if n.get('decl') and ('local', n['decl']['name']) == v]
        ok = len(d) == 1 and NI.canon(d[0]['decl']['init']) == field
        conds = [n for n in g.live() if n['kind'] == 'cond' and ir.canon(n['expr']) in (v, ir.canon(('bin', '!=', v, ('int', 0))))]
        ok = ok and len(conds) == 1 and g.must_pass(dels[0]['id'], through_edges=[(conds[0]['id'], True)])
        ok = ok and dels[0]['id'] not in g.reach_from(dels[0]['succ'][0][0]) and g.must_pass(g.exit, [n['id'] for n in clears]) and \
            all(cl['id'] not in g.reach_from(g.entry, cut_nodes=[d[0]['id']]) for cl in clears)
    ctx.check(ok, rule, 'Box_Del', site(fn), 'a Box deletes its pointee at most once, only when it holds one, and clears the pointer on every path')
    # Box_Ref / Box_Deref are plain accessors of the same field
    fr, fd = P.fn('Box_Ref'), P.fn('Box_Deref')
    Nr = util.Norm(P, fr)
    st = [(Nr.canon(ev['lhs']), Nr.canon(ev['rhs'])) for e, _ in ir.all_exprs(fr['body']) for ev in util.expr_events(e, None) if ev['t'] == 'write' and ir.top_nocast(ev['lhs'])[0] != 'local']
    ab = util.accessor_body(P, 'Box_Deref')
    ok = st == [(('arrow', ('param', 0), 'val'), ('param', 1))] and ab is not None and ir.canon(ab[1]) == ('arrow', ('param', 0), 'val')
    ctx.check(ok, rule, 'Box_Ref/Deref', site(fr), 'the pointer cleared by the destructor is the one it dereferenced')
    ctx.floor(rule, 2)


def check_finalise_unregisters(P, ctx, rule):
    """every finalisation site of the collector unit releases a pointer that it took *out of* the registry: either read from
    entries[i].ptr with that entry struck before the release, or read from the sweep's pending list (whose entries were struck
    when they were appended). A release of anything else (a parameter, say) leaves the object registered: the next sweep or the
    teardown finalises it a second time."""
    n_sites = 0
    for fname, fn in sorted(P.units['src/GC.c']['functions'].items()):
        if fn.get('body') is None:
            continue
        g = P.cfg(fn)
        NX = util.Norm(P, fn, expand_locals=True)
        for n in g.live():
            if n['expr'] is None:
                continue
            for ev in util.expr_events(n['expr'], n):
                if ev['t'] != 'call' or ev['name'] not in ('dealloc', 'dealloc_raw', 'dealloc_root', 'destruct'):
                    continue
                a = ir.top_nocast(ev['args'][0])
                if ev['name'] != 'destruct' and a[0] == 'call' and ir.callee_name(a) == 'destruct':
                    continue      # judged at the inner destruct
                n_sites += 1
                ctx.fn(fn)
                x = ir.top_nocast(NX.canon(ev['args'][0]))
                key = '%s:%s' % (fname, ir.fmt(ir.top_nocast(ev['args'][0]))[:40])
                why = None
                if x[0] in ('arrow', 'dot') and x[2] == 'ptr' and ir.top_nocast(x[1])[0] == 'idx' and util.mentions_field(x[1], 'entries'):
                    idx = ir.top_nocast(x[1])
                    strikes = []
                    for m in g.live():
                        if m['expr'] is None:
                            continue
                        for e2 in util.expr_events(m['expr'], m):
                            if e2['t'] == 'call' and e2['name'] == 'memset' and util.const_int(e2['args'][1]) == 0:
                                t = ir.top_nocast(NX.canon(e2['args'][0]))
                                if t[0] == 'un' and t[1] == '&' and ir.top_nocast(t[2]) == idx:
                                    strikes.append(m)
                            if e2['t'] == 'write':
                                t = ir.top_nocast(NX.canon(e2['lhs']))
                                if t == idx or (t[0] in ('arrow', 'dot') and ir.top_nocast(t[1]) == idx and t[2] in ('ptr', 'hash')
                                                and e2['rhs'] is not None and ir.is_null(e2['rhs'])):
                                    strikes.append(m)
                    ok = any(g.must_pass(n['id'], [s_['id']]) and n['id'] in g.reach_from(s_['id']) for s_ in strikes)
                    if not ok:
                        why = 'the entry it was read from is not struck on every path before the release'
                elif x[0] == 'idx' and util.mentions_field(x[1], 'freelist') and fname == 'GC_Sweep':
                    ok = True
                else:
                    ok = False
                    why = 'the pointer released (`%s`) was not taken out of the registry in this function' % ir.fmt(x)[:60]
                ctx.check(ok, rule, key, site(fn, n['line']),
                          'a finalisation in the collector releases a pointer whose registry entry was struck first (or that comes from the '
                          'sweep\'s pending list) — an object finalised while still registered is finalised again by the next sweep or at teardown',
                          [why] if why else None)
    ctx.floor(rule, 2)


def check_del_routes(P, ctx, rule='C06.del-routes'):
    """del / del_root release a standard or root object through the collector (rem(current(GC), self) strikes its registry entry and
    finalises it), never directly — a direct release leaves the entry registered and the next sweep or the teardown finalises the
    object again; del_raw releases directly (dealloc(destruct(self))).  The three entry points are evaluated (cint, through whatever
    helper they share)."""
    from . import cint
    SELF_, GCTOK = 5000, 4300
    for entry, name in (('del', 'ALLOC_STANDARD'), ('del_root', 'ALLOC_ROOT'), ('del_raw', 'ALLOC_RAW')):
        fn = P.fn(entry)
        ctx.fn(fn)
        # (whether the collector is running or stopped is not the deleter's business: a stopped collector still holds the entry)
        for running in (1, 0):
            events = []

            def call(nm, e, it, events=events, running=running):
                if nm == 'running':
                    return running
                if nm == 'current':
                    return GCTOK if ir.top_nocast(e[2][0]) == ('global', 'GC') else 4999
                if nm == 'rem':
                    events.append(('rem', it.ev(e[2][0]), it.ev(e[2][1])))
                    return 0
                if nm == 'destruct':
                    events.append(('destruct', it.ev(e[2][0])))
                    return it.ev(e[2][0])
                if nm in ('dealloc', 'dealloc_raw', 'dealloc_root'):
                    events.append(('dealloc', it.ev(e[2][0])))
                    return 0
                raise cint.NoEval('call %s' % nm)
            r = cint.CInt(P, fn, atoms={('global', 'NULL'): 0}, call=call, recurse=True).run([SELF_])
            want = [('rem', GCTOK, SELF_)] if name != 'ALLOC_RAW' else [('destruct', SELF_), ('dealloc', SELF_)]
            if r[0] == 'stuck':
                ctx.undecided(rule, 'del_by:' + name, site(fn), '%s leaves the evaluated fragment: %s' % (entry, r[1]))
                break
            ok = r[0] == 'ret' and events == want
            if not ok or running == 0:
                ctx.check(ok, rule, 'del_by:' + name, site(fn),
                          '%s objects are released %s on every path, whether the collector is running or stopped' % (name, 'through rem(current(GC), self) only' if name != 'ALLOC_RAW' else 'directly (dealloc(destruct(self)))'),
                          ['%s%s does: %s' % (entry, '' if running else ' with the collector stopped', ', '.join('%s%s' % (e_[0], e_[1:]) for e_ in events) or 'nothing')] if not ok else None)
                break
    ctx.floor(rule, 3)


def run(ctx, load):
    P = load(UNITS, 'default', WITNESS)
    ctx.stats['units'] = set(UNITS) | {'witness/main_wrapper.c', 'include/Cello.h'}
    ctx.stats['configs'] = ['default']
    check_del(P, ctx)
    check_order(P, ctx)
    check_sweep(P, ctx)
    check_teardown(P, ctx)
    check_box(P, ctx)
    check_registered_before_use(P, ctx)
    check_finalise_unregisters(P, ctx, 'C06.finalise-unregisters')
    check_del_routes(P, ctx)
    # a collection finalises only what is unreachable: the marker's lookup and marking evaluated on small registries (shared with C17)
    from .rules_c17 import report_registry
    report_registry(P, ctx, 'C06.marking-finds-the-registered', ('mem', 'mark'))
    ctx.floor('C06.marking-finds-the-registered', 2)
    # every standard / root allocation is registered (an object that is never registered is never finalised)
    from .rules_c01 import check_root_flag
    before = len(ctx.obs)
    check_root_flag(P, ctx)
    for o in ctx.obs[before:]:
        o['rule'] = 'C06.every-managed-object-registered'
    for k in list(ctx.floors):
        if k[0].startswith('C01.'):
            ctx.floors.pop(k)
    ctx.floor('C06.every-managed-object-registered', 4)
    # a stale mark makes the teardown sweep (which does not mark) skip the object: marks must be cleared after every sweep
    from .rules_c01 import check_marks_cleared
    check_marks_cleared(P, ctx, 'C06.teardown-sees-unmarked')
    ctx.floor('C06.teardown-sees-unmarked', 2)
    if ctx.tier == 'thorough':
        for cfg in ('ngc', 'ndebug'):
            Pc = load(UNITS, cfg, [WITNESS[1]])
            ctx.stats['configs'].append(cfg)
            if cfg == 'ngc':
                check_del(Pc, ctx, ngc=True)
            else:
                check_del(Pc, ctx)
                check_order(Pc, ctx)
                check_sweep(Pc, ctx)
        ctx.config = 'default'


EXPLANATION = (
    'Decided: (a) del-finalises — an interprocedural must-pass analysis from del/del_root/del_raw through del_by (specialised on '
    'the constant allocation method), the type-class dispatch rem(current(GC), p) -> GC_Rem (dispatch entries re-validated '
    'against the instance tables and the thread-local key), GC_Rem_Ptr: every normal exit must pass dealloc(destruct(p)) exactly '
    'once; exits that do not are reported per exit class; (b) finalise-before-free — dealloc is only ever called on destruct(p); '
    '(c) sweep-once — each reclaimed entry is appended once (guarded by occupied/unmarked/non-root) with the counts adjusted, '
    'and the final loop finalises every non-null pending entry; (d) teardown — collector destructor sweeps without marking and '
    'frees the registry, Cello_Exit/main wrapper/worker-thread start-up pair creation with teardown on every path; (e) Box '
    'deletes its pointee at most once and clears the pointer. Thorough tier repeats (a)-(c) under CELLO_NGC / CELLO_NDEBUG. Not '
    'decided: block-level accounting of malloc/free, interleavings of destructors that re-enter the collector beyond the '
    'pending-list case, objects still referenced by user code when explicitly deleted.')
