"""Table as a finite map, evaluated.

The slots of a small Table (5 slots, no growth) are records in integer memory with three parts — the hash word, the key with its
header, the value with its header — located where the type's own accessors (Table_Step, Table_Key, Table_Val, Table_Swapspace_*)
place them.  memcpy / memset move and clear whole parts, assign stores a fresh copy of the argument into a part, destruct and eq
and hash see the content of the part they are given.  Starting from the empty table, keys whose home slots collide and wrap around are
inserted with the library's own `set`; then a binding is replaced and the keys are removed one by one.  After every step the slots
are read back: they must hold exactly the bindings of the abstract map (no key twice), the count must match, every bound key must
be found by the library's own `mem` and `get` and an unbound one refused; every key or value that leaves the table must have been
destructed exactly once, nothing else.  The hash of a key is whatever the scenario says — the outcome may not depend on it.
"""
import itertools
from . import ir, util, cint
from .absmodel import SELF, Mismatch, Unsupported, sub, probe_read

NS = 5
DATA, SS0, SS1, NEWDATA = 600000, 610000, 620000, 900000
KSIZE, VSIZE = 8, 16


class TableWorld:
    def __init__(self, P, homes, nslots=NS):
        self.P = P
        self.homes = homes                    # key id -> hash value
        self.atoms = {('global', 'NULL'): 0, ('global', 'Terminal'): 7777}
        for f, v in (('ktype', 8500), ('vtype', 8501), ('ksize', KSIZE), ('vsize', VSIZE), ('nitems', 0), ('nslots', nslots), ('data', DATA),
                     ('sspace0', SS0), ('sspace1', SS1)):
            self.atoms[('elem', 'self', 0, f)] = v
        self.step = sub(P, 'Table_Step', [SELF], self.atoms)
        self.KO = sub(P, 'Table_Key', [SELF, 0], self.atoms) - DATA
        self.VO = sub(P, 'Table_Val', [SELF, 0], self.atoms) - DATA
        self.HW = probe_read(P, 'Table_Key_Hash', [SELF, 0], self.atoms) - DATA
        self.HDR = 8 * len(P.records['Header']['fields']) if 'Header' in P.records else 24
        if not (self.HW == 0 and self.KO - self.HDR >= 8 and self.VO - self.HDR >= self.KO + KSIZE and self.VO + VSIZE <= self.step):
            raise Unsupported('record layout: hash word, key and value do not fit one step in that order')
        # parts: name -> (first byte, end byte)
        self.parts = {'hash': (0, 8), 'K': (self.KO - self.HDR, self.KO + KSIZE), 'V': (self.VO - self.HDR, self.VO + VSIZE)}
        self.regions = {DATA: [self.blank() for _ in range(nslots)], SS0: [self.blank()], SS1: [self.blank()]}
        self.events = []
        self.serial = 0
        self.freed = []

    def blank(self):
        return {'hash': 0, 'K': None, 'V': None}

    # -- addresses ----------------------------------------------------------------------------------------------------------
    def locate(self, a):
        """(region base, record index, offset in record) or None"""
        for base, recs in self.regions.items():
            if base <= a < base + len(recs) * self.step:
                return base, (a - base) // self.step, (a - base) % self.step
        return None

    def span(self, a, n, what):
        """the parts of one record covered exactly by the byte range [a, a+n)"""
        loc = self.locate(a)
        if loc is None or n <= 0:
            raise Mismatch('%s %d bytes at an address outside the table\'s storage' % (what, n))
        base, idx, off = loc
        if off + n > self.step:
            raise Mismatch('%s %d bytes from offset %d of a record: runs into the next record' % (what, n, off))
        names = []
        pos = off
        for nm, (lo, hi) in sorted(self.parts.items(), key=lambda kv: kv[1]):
            if hi <= pos or lo >= off + n:
                continue
            if lo < off or hi > off + n:
                raise Mismatch('%s bytes %d..%d of a record: cuts through its %s' % (what, off, off + n, {'hash': 'hash word', 'K': 'key', 'V': 'value'}[nm]))
            names.append(nm)
        if not names:
            raise Mismatch('%s bytes %d..%d of a record: padding only' % (what, off, off + n))
        return base, idx, names

    def obj(self, a):
        """content of the key / value object at address a (the object pointer, behind its header)"""
        loc = self.locate(a)
        if loc is None:
            return None
        base, idx, off = loc
        if off == self.KO:
            return ('K', base, idx)
        if off == self.VO:
            return ('V', base, idx)
        raise Mismatch('an address %d bytes into a record is used as an object: neither its key nor its value' % off)

    def content(self, v):
        """token of an operand of eq / hash / destruct: a stored part's content, or the external object itself"""
        if isinstance(v, int):
            o = self.obj(v)
            if o is None:
                return ('ext', v)
            c = self.regions[o[1]][o[2]][o[0]]
            if c is None:
                raise Mismatch('an empty %s is used as an object' % ('key' if o[0] == 'K' else 'value'))
            return c
        raise Mismatch('operand %r' % (v,))

    # -- hooks ----------------------------------------------------------------------------------------------------------------
    def mem(self, a, it):
        loc = self.locate(a)
        if loc is None or loc[2] != 0 or it.mem_width not in (8, None):
            raise Mismatch('reads a word that is not the hash word of a record')
        return self.regions[loc[0]][loc[1]]['hash']

    def memw(self, a, v, w, it):
        loc = self.locate(a)
        if loc is None or loc[2] != 0:
            raise Mismatch('stores a word that is not the hash word of a record')
        self.regions[loc[0]][loc[1]]['hash'] = v

    def call(self, nm, e, it):
        if nm == 'cast':
            return it.ev(e[2][0])
        if nm == 'size' and it.ev(e[2][0]) in (8500, 8501):
            # the key / value types' own sizes: the slot sizes are these rounded up to whole words, so they are a little smaller
            return KSIZE - 3 if it.ev(e[2][0]) == 8500 else VSIZE - 5
        if nm == 'hash':
            c = self.content(it.ev(e[2][0]))
            kid = c[1] - 4000 if c[0] == 'ext' else c[1]
            if kid not in self.homes:
                raise Mismatch('hash of something that is not a key')
            return self.homes[kid]
        if nm == 'eq':
            a, b = self.content(it.ev(e[2][0])), self.content(it.ev(e[2][1]))
            ka = a[1] - 4000 if a[0] == 'ext' else a[1]
            kb = b[1] - 4000 if b[0] == 'ext' else b[1]
            return int(ka == kb)
        if nm == 'destruct':
            v = it.ev(e[2][0])
            self.events.append(('destruct', self.content(v)))
            return v
        if nm == 'assign':
            d, s_ = it.ev(e[2][0]), it.ev(e[2][1])
            o = self.obj(d) if isinstance(d, int) else None
            if o is None:
                raise Mismatch('assign into something that is not a key or value of a record')
            src = self.content(s_)
            self.serial += 1
            kind = 'key' if o[0] == 'K' else 'val'
            ident = (src[1] - (4000 if kind == 'key' else 5000)) if src[0] == 'ext' else src[1]
            self.regions[o[1]][o[2]][o[0]] = (kind, ident, self.serial)
            return d
        if nm == 'header_init':
            h = it.ev(e[2][0])
            loc = self.locate(h)
            if loc is None or loc[2] not in (self.parts['K'][0], self.parts['V'][0]):
                raise Mismatch('a header is stamped somewhere that is not in front of a key or a value')
            return h + self.HDR
        if nm == 'memset':
            a, v, n = it.ev(e[2][0]), it.ev(e[2][1]), it.ev(e[2][2])
            base, idx, names = self.span(a, n, 'clears')
            if v != 0:
                raise Mismatch('memset with a non-zero byte')
            for p_ in names:
                self.regions[base][idx][p_] = 0 if p_ == 'hash' else None
            return a
        if nm in ('memcpy', 'memmove'):
            d, s_, n = it.ev(e[2][0]), it.ev(e[2][1]), it.ev(e[2][2])
            if isinstance(s_, tuple) and s_[0] == 'lref':          # memcpy(dst, &local, 8): a word taken from a local
                base, idx, names = self.span(d, n, 'copies to')
                if names != ['hash']:
                    raise Mismatch('a word from a local is copied over something that is not the hash word')
                self.regions[base][idx]['hash'] = s_[1].locals[s_[2]]
                return d
            if isinstance(s_, int) and self.locate(s_) is None:
                # an external object copied in by its bytes (the caller's key / value, header included): identified by its object address
                base, idx, names = self.span(d, n, 'copies to')
                if len(names) != 1 or names[0] == 'hash':
                    raise Mismatch('bytes from outside the table are copied over %s' % names)
                self.serial += 1
                kind = 'key' if names[0] == 'K' else 'val'
                self.regions[base][idx][names[0]] = (kind, s_ + self.HDR - (4000 if kind == 'key' else 5000), self.serial)
                return d
            db, di, dn = self.span(d, n, 'copies to')
            sb, si, sn = self.span(s_, n, 'copies from')
            if dn != sn:
                raise Mismatch('copies the parts %s of one record over the parts %s of another' % (sn, dn))
            for p_ in dn:
                self.regions[db][di][p_] = self.regions[sb][si][p_]
            return d
        if nm == 'calloc':
            n, sz = it.ev(e[2][0]), it.ev(e[2][1])
            if sz != self.step:
                raise Mismatch('allocates records of %d bytes, a record has %d' % (sz, self.step))
            self.regions[NEWDATA] = [self.blank() for _ in range(n)]
            return NEWDATA
        if nm == 'realloc':
            return it.ev(e[2][0])
        if nm == 'free':
            a = it.ev(e[2][0])
            if a == 0:
                return 0
            if a in self.regions and a not in (SS0, SS1):
                self.freed.append(a)
                del self.regions[a]
                return 0
            raise Mismatch('frees something that is not the slot storage')
        if nm == 'Table_Ideal_Size':
            if getattr(self, 'ideal', None) is not None:
                return self.ideal                                     # a scenario in which the operation crosses a resize threshold
            return self.atoms[('elem', 'self', 0, 'nslots')] or NS    # the table keeps its size in these scenarios (a table without slots gets NS)
        raise cint.NoEval('call %s' % nm)

    def run(self, fname, args, max_steps=6000):
        fn = self.P.fn(fname)
        it = cint.CInt(self.P, fn, atoms=self.atoms, call=self.call, recurse=True, mem=self.mem, memw=self.memw, max_steps=max_steps, max_depth=6, strict=True)
        it.atoms = self.atoms
        return it.run(args)

    # -- read back ----------------------------------------------------------------------------------------------------------
    def bindings(self):
        """({key id: (value id, K token, V token)}, problem or None) from the current slot storage"""
        data = self.atoms[('elem', 'self', 0, 'data')]
        recs = self.regions.get(data)
        if recs is None or len(recs) != self.atoms[('elem', 'self', 0, 'nslots')]:
            return {}, 'the data pointer / slot count do not describe the storage'
        out = {}
        for i, r in enumerate(recs):
            if r['hash'] == 0:
                if r['K'] is not None or r['V'] is not None:
                    return out, 'slot %d is marked empty but still holds a key or a value' % i
                continue
            if r['K'] is None or r['V'] is None or r['K'][0] != 'key' or r['V'][0] != 'val':
                return out, 'slot %d is marked occupied but does not hold a key and a value' % i
            if r['K'][1] in out:
                return out, 'key %d is stored twice' % r['K'][1]
            out[r['K'][1]] = (r['V'][1], r['K'], r['V'])
        return out, None


def eval_table(P):
    """-> ({'set': msg, 'get': msg, 'mem': msg, 'rem': msg}, unsupported, cases)"""
    setf, getf, memf, remf = (P.slot('Table', 'Get', m) for m in ('set', 'get', 'mem', 'rem'))
    bad = {'set': None, 'get': None, 'mem': None, 'rem': None}
    unsup = None
    ncase = 0
    patterns = []
    for homes in itertools.product((0, 3, 4), repeat=3):
        patterns.append((dict(enumerate(homes)), [0, 1, 2]))
    patterns += [({0: 4, 1: 4, 2: 4, 3: 4}, [0, 1, 2, 3]), ({0: 3, 1: 4, 2: 3, 3: 0}, [3, 0, 2, 1]), ({0: 0, 1: 0, 2: 4, 3: 4}, [2, 0, 3, 1])]
    # hash values: home slot h means hash % NS == h; use values beyond NS too so that the modulo matters
    for homes, order in patterns:
        hv = {k: h + NS * (3 + k) for k, h in homes.items()}
        hv[99] = 0 + NS * 7                          # a key that is never stored, home slot 0
        hv[98] = 4 + NS * 2                          # another one, home slot 4
        W = TableWorld(P, hv)
        model = {}
        label0 = 'keys with home slots %s' % [homes[k] for k in sorted(homes)]

        def step(op, kid, vid=None):
            nonlocal unsup
            W.events = []
            before, _ = W.bindings()
            if op == 'set':
                r = W.run(setf, [SELF, 4000 + kid, 5000 + vid])
            else:
                r = W.run(remf, [SELF, 4000 + kid])
            lab = '%s, after %s: %s(key %d%s)' % (label0, hist or 'nothing', op, kid, '' if vid is None else ', value %d' % vid)
            if r[0] == 'stuck':
                unsup = unsup or '%s: %s' % (lab, r[1])
                return False
            if op == 'rem' and kid not in model:
                if not (r[0] == 'term' and r[1] == ('throw', 'KeyError')):
                    bad['rem'] = bad['rem'] or '%s: the key is not bound, KeyError expected' % lab
                return True
            if r[0] != 'ret':
                bad[op] = bad[op] or '%s: %s' % (lab, 'does not return (%s)' % (r[1],))
                return False
            leaving = []
            if op == 'set':
                if kid in model:
                    leaving = [before[kid][1], before[kid][2]]
                model[kid] = vid
            else:
                leaving = [before[kid][1], before[kid][2]]
                del model[kid]
            got, prob = W.bindings()
            if prob:
                bad[op] = bad[op] or '%s: afterwards %s' % (lab, prob)
                return False
            if {k: v[0] for k, v in got.items()} != model:
                bad[op] = bad[op] or '%s: the slots now bind %s, the map is %s' % (lab, {k: v[0] for k, v in sorted(got.items())}, dict(sorted(model.items())))
                return False
            if W.atoms[('elem', 'self', 0, 'nitems')] != len(model):
                bad[op] = bad[op] or '%s: the count is %s, %d keys are bound' % (lab, W.atoms[('elem', 'self', 0, 'nitems')], len(model))
                return False
            des = [e_[1] for e_ in W.events if e_[0] == 'destruct']
            if sorted(map(repr, des)) != sorted(map(repr, leaving)):
                bad[op] = bad[op] or '%s: destructs %s; what leaves the table is %s' % (lab, [d_[:2] for d_ in des], [d_[:2] for d_ in leaving])
                return False
            # every bound key is found by the library's own lookups, unbound ones are refused
            for q in sorted(set(model) | {99, 98} | set(homes)):
                for look, f_ in (('mem', memf), ('get', getf)):
                    W.events = []
                    r2 = W.run(f_, [SELF, 4000 + q])
                    if r2[0] == 'stuck':
                        unsup = unsup or '%s, then %s(key %d): %s' % (lab, look, q, r2[1])
                        continue
                    if look == 'mem':
                        okq = r2[0] == 'ret' and bool(r2[1]) == (q in model)
                    elif q in model:
                        o = W.obj(r2[1]) if r2[0] == 'ret' and isinstance(r2[1], int) else None
                        okq = o is not None and o[0] == 'V' and W.regions[o[1]][o[2]]['V'] == got[q][2]
                    else:
                        okq = r2[0] == 'term' and r2[1] == ('throw', 'KeyError')
                    if not okq:
                        msg_ = '%s, then %s(key %d, %s): %s' % (lab, look, q, 'bound' if q in model else 'not bound',
                                                               'returns %s' % (r2[1],) if r2[0] == 'ret' else ('raises %s' % r2[1][1] if isinstance(r2[1], tuple) else r2[1]))
                        bad[look] = bad[look] or msg_
                        if first_lookup_ok.get(look):
                            # the lookup worked on the states before: the operation left the table in a state it cannot be searched in
                            bad[op] = bad[op] or msg_
                    else:
                        first_lookup_ok[look] = True
            return True
        hist = ''
        ok = True
        first_lookup_ok = {}
        try:
            for k in order:
                ok = ok and step('set', k, k)
                ncase += 1
                hist += ' set %d' % k
                if not ok:
                    break
            if ok:
                ok = step('set', order[0], 7)            # replace a binding
                hist += ' set %d again' % order[0]
                ncase += 1
            if ok:
                ok = step('rem', 99)                     # remove a key that was never bound
                ncase += 1
            for k in ([order[1], order[0]] + order[2:]) if ok else []:
                ok = step('rem', k)
                ncase += 1
                hist += ' rem %d' % k
                if not ok:
                    break
            if ok:
                ok = step('set', order[-1], 3)           # an emptied table keeps working
                ncase += 1
        except Mismatch as x:
            bad['set'] = bad['set'] or '%s, after %s: %s' % (label0, hist or 'nothing', x)
    # a table without slots (fresh, or emptied by resize(t, 0)): lookups answer "not there" without touching storage, set creates the slots
    W = TableWorld(P, {0: 3 + NS * 2, 99: NS * 7}, nslots=0)
    W.atoms[('elem', 'self', 0, 'data')] = 0
    del W.regions[DATA]
    try:
        for look, f_, want in (('mem', memf, ('ret', 0)), ('get', getf, ('term', ('throw', 'KeyError'))), ('rem', remf, ('term', ('throw', 'KeyError')))):
            r = W.run(f_, [SELF, 4000 + 99])
            ncase += 1
            if r[0] == 'stuck':
                unsup = unsup or 'table without slots, %s: %s' % (look, r[1])
            elif (r[0], r[1] if r[0] == 'term' else int(bool(r[1]))) != want:
                bad[look] = bad[look] or 'table without slots: %s of a key %s' % (look, 'returns %s' % (r[1],) if r[0] == 'ret' else ('raises %s' % r[1][1] if isinstance(r[1], tuple) else r[1]))
        r = W.run(setf, [SELF, 4000, 5000])
        ncase += 1
        if r[0] == 'stuck':
            unsup = unsup or 'table without slots, set: %s' % (r[1],)
        else:
            got, prob = W.bindings()
            if r[0] != 'ret' or prob or {k: v[0] for k, v in got.items()} != {0: 0} or W.atoms[('elem', 'self', 0, 'nitems')] != 1:
                bad['set'] = bad['set'] or 'table without slots: after set(key 0) %s' % (prob or 'the slots bind %s, count %s' % ({k: v[0] for k, v in got.items()}, W.atoms[('elem', 'self', 0, 'nitems')]))
    except Mismatch as x:
        bad['set'] = bad['set'] or 'table without slots: %s' % x
    return bad, unsup, ncase


_FM = {}


def finite_map(P):
    """memoised eval_table"""
    if id(P) not in _FM:
        try:
            _FM[id(P)] = eval_table(P)
        except Unsupported as x:
            _FM[id(P)] = ({'set': None, 'get': None, 'mem': None, 'rem': None}, str(x), 0)
    return _FM[id(P)]


def eval_table_rehash(P):
    """Table_Rehash from 5 to 7 and to 3 slots on populated tables: afterwards the new store binds exactly what the old one did, the count
    matches, every key is found by the library's own lookups, nothing was destructed, and the old store — only it — was freed.
    -> (mismatch, unsupported, cases)"""
    setf, getf, memf = (P.slot('Table', 'Get', m) for m in ('set', 'get', 'mem'))
    bad, unsup, ncase = None, None, 0
    for homes in ({}, {0: 0}, {0: 4, 1: 4}, {0: 3, 1: 4, 2: 3}, {0: 0, 1: 0, 2: 0}):
        for new_size in (7, 3, 5):
            if new_size <= len(homes):
                continue
            hv = {k: h + 35 * (k + 1) for k, h in homes.items()}          # 35 = 5 * 7: same home modulo 5, spread modulo 7 and 3
            hv[99] = 70
            W = TableWorld(P, hv)
            label = 'table with keys at home slots %s rehashed to %d slots' % ([homes[k] for k in sorted(homes)], new_size)
            try:
                okb = True
                for k in sorted(homes):
                    r = W.run(setf, [SELF, 4000 + k, 5000 + k])
                    if r[0] != 'ret':
                        okb = False
                if not okb:
                    continue                              # building the table is eval_table's business
                before, _ = W.bindings()
                W.events = []
                r = W.run('Table_Rehash', [SELF, new_size])
                ncase += 1
                if r[0] == 'stuck':
                    unsup = unsup or '%s: %s' % (label, r[1])
                    continue
                if r[0] != 'ret':
                    bad = bad or '%s: does not return' % label
                    continue
                got, prob = W.bindings()
                msg = prob
                if not msg and {k: v[0] for k, v in got.items()} != {k: v[0] for k, v in before.items()}:
                    msg = 'the new store binds %s, the old one bound %s' % ({k: v[0] for k, v in sorted(got.items())}, {k: v[0] for k, v in sorted(before.items())})
                if not msg and W.atoms[('elem', 'self', 0, 'nitems')] != len(before):
                    msg = 'the count is %s, %d keys are bound' % (W.atoms[('elem', 'self', 0, 'nitems')], len(before))
                if not msg and W.atoms[('elem', 'self', 0, 'nslots')] != new_size:
                    msg = 'the slot count is %s' % W.atoms[('elem', 'self', 0, 'nslots')]
                if not msg and W.events:
                    msg = 'keys or values are destructed (%s): they moved, they did not leave' % [e_[1][:2] for e_ in W.events]
                if not msg and W.freed != [DATA]:
                    msg = 'the old store is not freed exactly once (freed: %s)' % W.freed
                for q in sorted(set(before) | {99}) if not msg else []:
                    r2 = W.run(memf, [SELF, 4000 + q])
                    if not (r2[0] == 'ret' and bool(r2[1]) == (q in before)):
                        msg = 'afterwards mem(key %d) %s' % (q, 'returns %s' % (r2[1],) if r2[0] == 'ret' else r2[1])
                        break
                if msg:
                    bad = bad or '%s: %s' % (label, msg)
            except Mismatch as x:
                bad = bad or '%s: %s' % (label, x)
    return bad, unsup, ncase


def eval_table_resizing_ops(P):
    """set and rem that cross a resize threshold (the ideal size reported for the table's count is larger / smaller than its slot count, so the
    operation rehashes on the way): afterwards the table binds exactly the abstract map, the count matches and every key is found.
    -> (mismatch, unsupported, cases)"""
    setf, memf, remf = (P.slot('Table', 'Get', m) for m in ('set', 'mem', 'rem'))
    bad, unsup, ncase = None, None, 0
    for homes in ({0: 0, 1: 3}, {0: 4, 1: 4, 2: 0}, {0: 3, 1: 4, 2: 3}):
        for op, ideal in (('rem', 3), ('set', 7)):
            hv = {k: h + 105 * (k + 1) for k, h in homes.items()}          # 105 = 3 * 5 * 7: same home modulo 5, 7 and 3
            hv[9] = 2 + 105 * 11
            W = TableWorld(P, hv)
            label = 'table with keys at home slots %s, %s while the ideal size for its count is %d slots' % ([homes[k] for k in sorted(homes)], op, ideal)
            try:
                okb = True
                for k in sorted(homes):
                    if W.run(setf, [SELF, 4000 + k, 5000 + k])[0] != 'ret':
                        okb = False
                if not okb:
                    continue
                before, _ = W.bindings()
                model = {k: v[0] for k, v in before.items()}
                W.events = []
                W.ideal = ideal
                if op == 'rem':
                    victim = sorted(homes)[0]
                    r = W.run(remf, [SELF, 4000 + victim])
                    del model[victim]
                else:
                    r = W.run(setf, [SELF, 4000 + 9, 5000 + 9])
                    model[9] = 9
                W.ideal = None
                ncase += 1
                if r[0] == 'stuck':
                    unsup = unsup or '%s: %s' % (label, r[1])
                    continue
                if r[0] != 'ret':
                    bad = bad or '%s: does not return' % label
                    continue
                got, prob = W.bindings()
                msg = prob
                if not msg and {k: v[0] for k, v in got.items()} != model:
                    msg = 'the table binds %s, the map is %s' % ({k: v[0] for k, v in sorted(got.items())}, dict(sorted(model.items())))
                if not msg and W.atoms[('elem', 'self', 0, 'nitems')] != len(model):
                    msg = 'the count is %s, %d keys are bound' % (W.atoms[('elem', 'self', 0, 'nitems')], len(model))
                for q in sorted(set(model) | set(homes) | {9}) if not msg else []:
                    r2 = W.run(memf, [SELF, 4000 + q])
                    if not (r2[0] == 'ret' and bool(r2[1]) == (q in model)):
                        msg = 'afterwards mem(key %d) %s' % (q, 'returns %s' % (r2[1],) if r2[0] == 'ret' else r2[1])
                        break
                if msg:
                    bad = bad or '%s: %s' % (label, msg)
            except Mismatch as x:
                bad = bad or '%s: %s' % (label, x)
    return bad, unsup, ncase
