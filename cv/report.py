"""Obligation bookkeeping, known findings, evidence and exit codes.

exit 0  every obligation PROVED, or REFUTED but listed in known_findings.json
exit 1  at least one REFUTED obligation not listed -> VIOLATION line each
exit 2  analysis broken (UNDECIDED obligation, vanished anchor, count < floor)
"""
import json, os, time, sys

VERIF = os.path.dirname(os.path.dirname(os.path.abspath(__file__)))
KNOWN = os.path.join(VERIF, 'known_findings.json')
# self-tests on scratch copies redirect their evidence so that the real evidence files are not overwritten
EVDIR = os.environ.get('CV_EVIDENCE_DIR') or os.path.join(VERIF, 'evidence')


class Ctx:
    def __init__(self, prop, tier, seed=0):
        self.prop = prop
        self.tier = tier
        self.seed = seed
        self.obs = []
        self.floors = {}
        self.stats = {'functions': set(), 'paths': 0, 'call_sites': 0, 'units': set(), 'configs': []}
        self.notes = []
        self.t0 = time.time()
        self.config = 'default'

    # -- recording --------------------------------------------------------------
    def _add(self, rule, key, verdict, site, what, detail=None):
        self.obs.append({'rule': rule, 'key': key, 'verdict': verdict, 'site': site,
                         'what': what, 'detail': detail, 'config': self.config})

    def proved(self, rule, key, site, what, detail=None):
        self._add(rule, key, 'PROVED', site, what, detail)

    def refuted(self, rule, key, site, what, detail=None):
        self._add(rule, key, 'REFUTED', site, what, detail)

    def undecided(self, rule, key, site, what, detail=None):
        self._add(rule, key, 'UNDECIDED', site, what, detail)

    def check(self, ok, rule, key, site, what, detail=None):
        (self.proved if ok else self.refuted)(rule, key, site, what, detail)
        return ok

    def floor(self, rule, n):
        """the rule must have produced at least n obligations (per configuration)"""
        self.floors[(rule, self.config)] = n

    def fn(self, f):
        self.stats['functions'].add(f if isinstance(f, str) else f['name'])

    def borrow(self, rule, floor, call, only=None):
        """run another property's rule function and record its obligations under this property's rule name (the borrowed rule is a
        necessary condition of this property too; the caller says why).  `only`: keep the obligations whose key satisfies it."""
        before = len(self.obs)
        fl = dict(self.floors)
        call()
        new = self.obs[before:]
        if only is not None:
            new = [o for o in new if only(o)]
            self.obs[before:] = new
        for o in new:
            o['rule'] = rule
        self.floors = fl
        self.floor(rule, floor)
        return len(new)

    def note(self, s):
        self.notes.append(s)


def site(fn, line=None):
    if isinstance(fn, dict):
        return '%s:%s (%s)' % (fn['file'], line if line is not None else fn['line'], fn['name'])
    return '%s:%s' % (fn, line)


def load_known():
    if not os.path.exists(KNOWN):
        return {'known': [], 'fixed': []}
    return json.load(open(KNOWN))


def finish(ctx, explanation, level='other', assumptions=(), technique='', extra_cov=None):
    known = load_known()
    kn = {(k['property'], k['rule'], k['key']): k for k in known.get('known', [])}
    broken = []
    # floors
    for (rule, cfg), n in ctx.floors.items():
        have = sum(1 for o in ctx.obs if o['rule'] == rule and o['config'] == cfg)
        if have < n:
            broken.append('rule %s produced %d obligations under %s, floor is %d '
                          '(anchor vanished or rule matches nothing)' % (rule, have, cfg, n))
    viol, knownhits = [], []
    seen = set()
    for o in ctx.obs:
        if o['verdict'] == 'UNDECIDED':
            broken.append('UNDECIDED %s %s at %s: %s' % (o['rule'], o['key'], o['site'], o['what']))
        elif o['verdict'] == 'REFUTED':
            k = (ctx.prop, o['rule'], o['key'])
            if k in seen:
                continue
            seen.add(k)
            if k in kn:
                knownhits.append((o, kn[k]))
            else:
                viol.append(o)
    os.makedirs(os.path.join(EVDIR, 'replay'), exist_ok=True)
    for o, k in knownhits:
        print('KNOWN-FINDING: property=%s %s [%s %s at %s]' % (ctx.prop, k['what'], o['rule'], o['key'], o['site']))
    for o in viol:
        rp = os.path.join(EVDIR, 'replay', '%s_%s_%s.json' % (
            ctx.prop, o['rule'].replace('/', '_'), _safe(o['key'])))
        json.dump({'property': ctx.prop, 'rule': o['rule'], 'key': o['key'], 'site': o['site'],
                   'what': o['what'], 'detail': o['detail'], 'config': o['config'], 'tier': ctx.tier}, open(rp, 'w'), indent=1)
        print('REFUTED %s %s at %s: %s' % (o['rule'], o['key'], o['site'], o['what']))
        if o['detail']:
            for ln in (o['detail'] if isinstance(o['detail'], list) else [o['detail']]):
                print('    ' + str(ln))
        print('VIOLATION property=%s replay=%s' % (ctx.prop, rp))
    for b in broken:
        print('ANALYSIS-BROKEN property=%s %s' % (ctx.prop, b))
    nob = len(ctx.obs)
    ndis = sum(1 for o in ctx.obs if o['verdict'] == 'PROVED')
    distinct = len({(o['rule'], o['key'], o['config']) for o in ctx.obs if o['site']})
    samples = []
    per_rule = {}
    for o in ctx.obs:
        per_rule.setdefault(o['rule'], []).append(o)
    for r, lst in sorted(per_rule.items()):
        for o in lst[:3]:
            samples.append({'rule': r, 'instance': o['key'], 'site': o['site'], 'obligation': o['what'],
                            'verdict': o['verdict'], 'config': o['config']})
    cov = {
        'explanation': explanation,
        'obligations': nob,
        'discharged': ndis,
        'evaluations': nob,
        'distinct_nontrivial': distinct,
        'rule': 'one obligation per (rule, instance, configuration) enumerated from the current /repo '
                'source; non-trivial = resolved to a concrete site (file:line/function) in the parsed program',
        'samples': samples,
        'rule_instances': {r: len(l) for r, l in sorted(per_rule.items())},
        'functions_analysed': sorted(ctx.stats['functions']),
        'paths_enumerated': ctx.stats['paths'],
        'call_sites': ctx.stats['call_sites'],
        'units': sorted(ctx.stats['units']),
        'configurations': ctx.stats['configs'],
        'known_findings': [{'rule': o['rule'], 'key': o['key'], 'site': o['site'], 'what': k['what']} for o, k in knownhits],
        'refuted_unlisted': [{'rule': o['rule'], 'key': o['key'], 'site': o['site'], 'what': o['what']} for o in viol],
        'analysis_broken': broken,
        'notes': ctx.notes,
        'technique': technique,
        'checker_cmd': './check %s --tier %s' % (ctx.prop, ctx.tier),
        'trusted_base': ['clang 14 front end (JSON AST)', 'cv/ analysis engine in /verif',
                         'make -n -B for the compilation database'],
    }
    if extra_cov:
        cov.update(extra_cov)
    ev = {
        'property_id': ctx.prop, 'tier': ctx.tier, 'seed': ctx.seed, 'level': level,
        'coverage': cov, 'assumptions': list(assumptions),
        'wall_s': round(time.time() - ctx.t0, 3), 'violations': len(viol),
    }
    json.dump(ev, open(os.path.join(EVDIR, ctx.prop + '.json'), 'w'), indent=1)
    print('%s: %d obligations, %d proved, %d known findings, %d violations, %d broken; %d functions, %d paths, %.1fs' % (
        ctx.prop, nob, ndis, len(knownhits), len(viol), len(broken), len(ctx.stats['functions']),
        ctx.stats['paths'], time.time() - ctx.t0))
    if viol:
        return 1
    if broken:
        return 2
    return 0


def _safe(s):
    return ''.join(c if c.isalnum() or c in '-_.' else '_' for c in str(s))[:120]
