"""print_to_with evaluated on concrete format strings (cint).

The format is a character array the function walks (`*fmt`, `fmt++`, strchr, strcspn answered as the C library defines them); the
scratch buffer is an array of exactly the size the function requested from malloc; every write goes through a sink call —
format_to(out, pos, piece[, value]) or show_to(value, out, pos) — which the model answers with a count and records.  For a format made
of literal text, `%%` and conversion specifications the recorded calls must be, in order: each literal run as it stands; "%%" for `%%`;
each specification copied verbatim (flags, width, precision, length modifier, letter) together with the next argument fetched through
the accessor of its kind (c_str, c_int, c_float, the object itself for %p, show_to for %$) — every call given the position the previous
one left, the last position returned.  With one argument too few FormatError is raised at that specification, after the earlier
pieces.  Nothing is stored outside the scratch buffer.
"""
from . import ir, util, cint

LETTERS = 'diuoxXfFeEgGaAcsp$'
KIND = {}
for ch in 'diuoxX':
    KIND[ch] = 'c_int'
for ch in 'fFeEgGaA':
    KIND[ch] = 'c_float'
KIND.update({'c': 'c_int', 's': 'c_str', 'p': None, '$': 'show'})

FORMATS = ['%jd', '%zu|%tx', '%d%ld', '%i all', '', 'abc', '%%', 'a%%b', '%i', 'x%iy', '%5.2f', '%ld%s', '%$', '%-08lli!', '%c%p', '%s%%%d', '%i%i', '%u tail', 'head %X', '%e%g%a', '%F%E%G%A',
           '%o%x', '%5$', '%.3s|%c|', '100%% of %i', '%lu%lu%lu']


class PrintMismatch(Exception):
    pass


def expected(fmt):
    """[('lit', text) | ('pct',) | ('spec', piece, letter)]"""
    out, i = [], 0
    while i < len(fmt):
        if fmt[i] != '%':
            j = fmt.find('%', i)
            j = len(fmt) if j < 0 else j
            out.append(('lit', fmt[i:j]))
            i = j
        elif fmt[i:i + 2] == '%%':
            out.append(('pct',))
            i += 2
        else:
            j = i
            while fmt[j] not in LETTERS:
                j += 1
            out.append(('spec', fmt[i:j + 1], fmt[j]))
            i = j + 1
    return out


def eval_print(P):
    """-> ({aspect: mismatch}, unsupported, cases); aspects: literal, percent, spec:<kind>, position, too-few, scratch"""
    fn = P.fn('print_to_with')
    bad = {}
    unsup = None
    ncase = 0
    OUT, POS0 = 2, 40
    for fmt in FORMATS:
        exp = expected(fmt)
        nspec = sum(1 for e_ in exp if e_[0] == 'spec')
        for nargs in ([nspec] + ([nspec - 1] if nspec else [])):
            atoms = {('global', 'NULL'): 0, ('global', 'Terminal'): 7777}
            for i, ch in enumerate(fmt):
                atoms[('elem', 'fmt', i, None)] = ord(ch)
            atoms[('elem', 'fmt', len(fmt), None)] = 0
            st = {'pos': POS0, 'cap': None, 'events': [], 'oob': None}

            def cstring(v, it):
                """the C string a pointer value designates"""
                if isinstance(v, tuple) and v[0] == 'str':
                    return v[1]
                if isinstance(v, tuple) and v[0] == 'ep':
                    s_, k = '', v[2]
                    while True:
                        c = it.atoms.get(('elem', v[1], k, None))
                        if c is None:
                            raise PrintMismatch('a string is read beyond what was written (no terminator)')
                        if c == 0:
                            return s_
                        s_ += chr(c)
                        k += 1
                        if len(s_) > 400:
                            raise PrintMismatch('unterminated string')
                raise cint.NoEval('string operand %r' % (v,))

            def sink(pos_in, what):
                if pos_in != st['pos']:
                    raise PrintMismatch('%s is written at position %s, the previous piece ended at %s' % (what, pos_in, st['pos']))

            def call(nm, e, it):
                if nm == 'strlen':
                    return len(cstring(it.ev(e[2][0]), it))
                if nm == 'malloc':
                    st['cap'] = it.ev(e[2][0])
                    return ('ep', 'fmt_buf', 0)
                if nm == 'free':
                    return 0
                if nm == 'strchr':
                    s_, c = cstring(it.ev(e[2][0]), it), it.ev(e[2][1])
                    k = s_.find(chr(c)) if c != 0 else len(s_)
                    v = it.ev(e[2][0])
                    return 0 if k < 0 else (('ep', v[1], v[2] + k) if isinstance(v, tuple) and v[0] == 'ep' else 1)
                if nm == 'strcspn':
                    s_, rej = cstring(it.ev(e[2][0]), it), cstring(it.ev(e[2][1]), it)
                    k = 0
                    while k < len(s_) and s_[k] not in rej:
                        k += 1
                    return k
                if nm == 'strspn':
                    s_, acc = cstring(it.ev(e[2][0]), it), cstring(it.ev(e[2][1]), it)
                    k = 0
                    while k < len(s_) and s_[k] in acc:
                        k += 1
                    return k
                if nm in ('memcpy', 'strncpy', 'memmove'):
                    d, s_, n = it.ev(e[2][0]), it.ev(e[2][1]), it.ev(e[2][2])
                    if not (isinstance(d, tuple) and d[0] == 'ep' and isinstance(s_, tuple) and s_[0] == 'ep'):
                        raise cint.NoEval('memcpy operands')
                    for k in range(n):
                        write(d[1], d[2] + k, it.atoms.get(('elem', s_[1], s_[2] + k, None)), it)
                    return d
                if nm == 'len':
                    return nargs
                if nm == 'get':
                    k = it.ev(e[2][1])
                    k = k[2][0] if isinstance(k, tuple) and k[0] == 'stack' else k
                    if not (isinstance(k, int) and 0 <= k < nargs):
                        raise PrintMismatch('argument %s is fetched, %d were passed' % (k, nargs))
                    return 9000 + k
                if nm == 'c_str':
                    return (nm, it.ev(e[2][0]))
                if nm in ('c_int', 'c_float'):
                    # a value that does not survive a 32-bit or a single-precision detour
                    return ((1 << 40) + 777 if nm == 'c_int' else (1 << 41) + 333) + (it.ev(e[2][0]) - 9000)
                if nm == 'format_to':
                    a = [it.ev(x) for x in e[2]]
                    if a[0] != OUT:
                        raise PrintMismatch('a piece is written to something that is not the sink')
                    piece = cstring(a[2], it)
                    sink(a[1], 'the piece %r' % piece)
                    st['events'].append(('format', piece, a[3] if len(a) > 3 else None))
                    n_ = len(piece) + 3
                    st['pos'] += n_
                    return n_
                if nm == 'show_to':
                    a = [it.ev(x) for x in e[2]]
                    if a[1] != OUT:
                        raise PrintMismatch('an object is shown to something that is not the sink')
                    sink(a[2], 'the shown object')
                    st['events'].append(('show', a[0]))
                    st['pos'] += 11
                    return st['pos']
                raise cint.NoEval('call %s' % nm)

            def write(arr, idx, v, it):
                if arr == 'fmt_buf':
                    if st['cap'] is None or not 0 <= idx < st['cap']:
                        st['oob'] = st['oob'] or 'byte %d of a scratch buffer of %s bytes is written' % (idx, st['cap'])
                elif arr == 'fmt':
                    st['oob'] = st['oob'] or 'the caller\'s format string is written'
                it.atoms[('elem', arr, idx, None)] = v
            it = cint.CInt(P, fn, atoms=atoms, call=call, recurse=False, strict=True, max_steps=20000)
            it.atoms = atoms
            orig_store = it.store

            def store(lhs, v, it=it, orig_store=orig_store):
                t = ir.top_nocast(lhs)
                ep = it.elem_lvalue(t) if t[0] in ('idx', 'un') else None
                if ep is not None and ep[1] in ('fmt_buf', 'fmt'):
                    write(ep[1], ep[2], v, it)
                    return
                orig_store(lhs, v)
            it.store = store
            label = 'format %r with %d argument(s)' % (fmt, nargs)
            try:
                r = it.run([OUT, POS0, ('ep', 'fmt', 0), 7100])
            except PrintMismatch as x:
                r = ('mismatch', str(x), None)
            ncase += 1
            if r[0] == 'stuck':
                unsup = unsup or '%s: %s at %s' % (label, r[1], P.cfg(fn).describe(r[2]))
                continue
            # expectation
            want, k = [], 0
            short = False
            for e_ in exp:
                if e_[0] == 'lit':
                    want.append(('format', e_[1], None))
                elif e_[0] == 'pct':
                    want.append(('format', '%%', None))
                else:
                    if k >= nargs:
                        short = True
                        break
                    arg = 9000 + k
                    kind = KIND[e_[2]]
                    if kind == 'show':
                        want.append(('show', arg))
                    else:
                        val = arg if kind is None else ((kind, arg) if kind == 'c_str' else ((1 << 40) + 777 if kind == 'c_int' else (1 << 41) + 333) + k)
                        want.append(('format', e_[1], val))
                    k += 1

            def aspect(ev_):
                if ev_ is None:
                    return 'literal'
                if ev_[0] == 'show':
                    return 'spec:$'
                if ev_[2] is None:
                    return 'percent' if ev_[1] == '%%' else 'literal'
                letter = ev_[1][-1]
                return 'spec:' + {'c_int': 'int', 'c_float': 'float', 'c_str': 's', None: 'p'}.get(KIND.get(letter), 'p') if letter != 'c' else 'spec:c'
            got = st['events']
            if r[0] == 'mismatch':
                bad.setdefault('position' if 'position' in r[1] else ('too-few' if 'is fetched' in r[1] else 'literal'), '%s: %s' % (label, r[1]))
                continue
            if st['oob']:
                bad.setdefault('scratch', '%s: %s' % (label, st['oob']))
            if got != want:
                i = 0
                while i < min(len(got), len(want)) and got[i] == want[i]:
                    i += 1
                w_ = want[i] if i < len(want) else None
                g_ = got[i] if i < len(got) else None
                bad.setdefault(aspect(w_ if w_ is not None else g_), '%s: call %d to the sink is %s, expected %s' % (label, i + 1, g_ or 'missing', w_ or 'none'))
                continue
            if short:
                if not (r[0] == 'term' and r[1] == ('throw', 'FormatError')):
                    bad.setdefault('too-few', '%s: one argument too few: %s' % (label, 'returns' if r[0] == 'ret' else 'raises %s' % (r[1][1] if isinstance(r[1], tuple) else r[1])))
            elif not (r[0] == 'ret' and r[1] == st['pos']):
                bad.setdefault('position', '%s: returns %s, the last piece ended at position %s' % (label, r[1] if r[0] == 'ret' else r[0], st['pos']))
    return bad, unsup, ncase


# ---------------------------------------------------------------------------------------------------------------------------------
# the reader: scan_from_with

SCAN_FORMATS = ['%f%li', '%e all', '%i%lf', '%d label', '%u%lu', '', 'abc', '%%', 'a%%b', '%i', 'x%iy', '%d', '%li', '%ld%s', '%$', '%lld!', '%c%p', '%s%%%d', '%i%i', '%u tail', 'head %X', '%e%g', '%lf%le', '%f',
                '%o%lx', '100%% of %i', '%lu%u', '%i %c', '%d  %s', ' %d', '%c\t%c ']
SCAN_LETTERS = 'diuoxXfFeEgGaAcsp$'


def eval_scan(P):
    """scan_from_with evaluated on concrete format strings.  Literal text and %% are matched against the input (format_from with the
    text) and advance the position by the number of characters print_to wrote for them (the text's length; one for %%).  A
    specification is copied verbatim, "%n" appended, and read with format_from into something of the width scanf stores for it — a
    float for %f, a double for %lf, an int for %d/%i, an unsigned int for %u/%o/%x, a long for the l forms, a char for %c, a pointer
    for %p, the argument's own buffer for %s — the count lands in a counter that is added to the position once, and the value read is
    assigned to the next argument unchanged (sign and magnitude); %$ goes through look_from.  One argument too few raises FormatError.
    -> ({aspect: mismatch}, unsupported, cases)"""
    fn = P.fn('scan_from_with')
    bad, unsup, ncase = {}, None, 0
    INP, POS0 = 3, 40
    STORED = {'int': -5, 'unsigned int': 4000000000, 'long': -(1 << 40), 'long long': -(1 << 40), 'unsigned long': (1 << 40) + 9, 'unsigned long long': (1 << 40) + 9,
              'float': 1234, 'double': (1 << 41) + 333, 'char': 65, 'void *': 424242}
    WANT_T = {}
    for ch in 'di':
        WANT_T[(ch, False)] = {'int'}
        WANT_T[(ch, True)] = {'long', 'long long', 'long int'}
    for ch in 'ouxX':
        WANT_T[(ch, False)] = {'unsigned int'}
        WANT_T[(ch, True)] = {'unsigned long', 'unsigned long long', 'long', 'long long'}
    for ch in 'fFeEgGaA':
        WANT_T[(ch, False)] = {'float'}
        WANT_T[(ch, True)] = {'double'}
    WANT_T[('c', False)] = {'char', 'signed char', 'unsigned char'}
    WANT_T[('p', False)] = {'void *'}
    for fmt in SCAN_FORMATS:
        exp = []
        i = 0
        while i < len(fmt):
            if fmt[i] != '%':
                j = fmt.find('%', i)
                j = len(fmt) if j < 0 else j
                exp.append(('lit', fmt[i:j]))
                i = j
            elif fmt[i:i + 2] == '%%':
                exp.append(('pct',))
                i += 2
            else:
                j = i
                while fmt[j] not in SCAN_LETTERS:
                    j += 1
                exp.append(('spec', fmt[i:j + 1], fmt[j]))
                i = j + 1
        nspec = sum(1 for e_ in exp if e_[0] == 'spec')
        for nargs in ([nspec] + ([nspec - 1] if nspec else [])):
            atoms = {('global', 'NULL'): 0, ('global', 'Terminal'): 7777}
            for k, ch in enumerate(fmt):
                atoms[('elem', 'fmt', k, None)] = ord(ch)
            atoms[('elem', 'fmt', len(fmt), None)] = 0
            st = {'pos': POS0, 'cap': None, 'events': [], 'oob': None, 'pending': None}

            def cstring(v, it):
                if isinstance(v, tuple) and v[0] == 'str':
                    return v[1]
                if isinstance(v, tuple) and v[0] == 'ep':
                    s_, k = '', v[2]
                    while True:
                        c = it.atoms.get(('elem', v[1], k, None))
                        if c is None:
                            raise PrintMismatch('a string is read beyond what was written (no terminator)')
                        if c == 0:
                            return s_
                        s_ += chr(c)
                        k += 1
                        if len(s_) > 400:
                            raise PrintMismatch('unterminated string')
                raise cint.NoEval('string operand %r' % (v,))

            def write(arr, idx, v, it):
                if arr == 'fmt_buf' and (st['cap'] is None or not 0 <= idx < st['cap']):
                    st['oob'] = st['oob'] or 'byte %d of a scratch buffer of %s bytes is written' % (idx, st['cap'])
                elif arr == 'fmt':
                    st['oob'] = st['oob'] or 'the caller\'s format string is written'
                it.atoms[('elem', arr, idx, None)] = v

            def call(nm, e, it):
                if nm == 'strlen':
                    return len(cstring(it.ev(e[2][0]), it))
                if nm == 'malloc':
                    st['cap'] = it.ev(e[2][0])
                    return ('ep', 'fmt_buf', 0)
                if nm == 'free':
                    return 0
                if nm == 'strchr':
                    v = it.ev(e[2][0])
                    s_, c = cstring(v, it), it.ev(e[2][1])
                    k = s_.find(chr(c)) if c != 0 else len(s_)
                    return 0 if k < 0 else (('ep', v[1], v[2] + k) if isinstance(v, tuple) and v[0] == 'ep' else 1)
                if nm == 'strcspn':
                    s_, rej = cstring(it.ev(e[2][0]), it), cstring(it.ev(e[2][1]), it)
                    k = 0
                    while k < len(s_) and s_[k] not in rej:
                        k += 1
                    return k
                if nm == 'strspn':
                    s_, acc = cstring(it.ev(e[2][0]), it), cstring(it.ev(e[2][1]), it)
                    k = 0
                    while k < len(s_) and s_[k] in acc:
                        k += 1
                    return k
                if nm in ('memcpy', 'strncpy', 'memmove'):
                    d, s_, n = it.ev(e[2][0]), it.ev(e[2][1]), it.ev(e[2][2])
                    if not (isinstance(d, tuple) and d[0] == 'ep' and isinstance(s_, tuple) and s_[0] == 'ep'):
                        raise cint.NoEval('memcpy operands')
                    for k in range(n):
                        write(d[1], d[2] + k, it.atoms.get(('elem', s_[1], s_[2] + k, None)), it)
                    return d
                if nm == 'strcat':
                    d = it.ev(e[2][0])
                    cur, add = cstring(d, it), cstring(it.ev(e[2][1]), it)
                    for k, ch in enumerate(add + '\x00'):
                        write(d[1], d[2] + len(cur) + k, ord(ch), it)
                    return d
                if nm == 'len':
                    return nargs
                if nm == 'get':
                    k = it.ev(e[2][1])
                    k = k[2][0] if isinstance(k, tuple) and k[0] == 'stack' else k
                    if not (isinstance(k, int) and 0 <= k < nargs):
                        raise PrintMismatch('argument %s is fetched, %d were passed' % (k, nargs))
                    return 9000 + k
                if nm == 'c_str':
                    return ('c_str', it.ev(e[2][0]))
                if nm == 'look_from':
                    a = [it.ev(x) for x in e[2]]
                    if a[1] != INP:
                        raise PrintMismatch('look_from reads from something that is not the input')
                    st['events'].append(('look', a[0], a[2]))
                    return a[2] + 9
                if nm == 'assign':
                    st['events'].append(('assign', it.ev(e[2][0]), it.ev(e[2][1])))
                    return it.ev(e[2][0])
                if nm == 'format_from':
                    a = [it.ev(x) for x in e[2]]
                    if a[0] != INP:
                        raise PrintMismatch('format_from reads from something that is not the input')
                    text = cstring(a[2], it)
                    if len(a) == 3:
                        st['events'].append(('match', text, a[1]))
                        return 1
                    if len(a) != 5:
                        raise cint.NoEval('format_from with %d arguments' % len(a))
                    dst, offp = a[3], a[4]
                    if not (isinstance(offp, tuple) and offp[0] == 'lref'):
                        raise PrintMismatch('the consumed-character count is not handed a counter')
                    cnt = len(text) + 1
                    offp[1].locals[offp[2]] = cnt
                    if isinstance(dst, tuple) and dst[0] == 'lref':
                        dtype = cint.norm_type(dst[1].ltypes.get(dst[2]))
                        if dtype not in STORED:
                            raise cint.NoEval('a temporary of type %s' % dtype)
                        dst[1].locals[dst[2]] = STORED[dtype]
                        st['events'].append(('read', text, ('tmp', dtype), a[1], cnt))
                    else:
                        st['events'].append(('read', text, dst, a[1], cnt))
                    return 1
                raise cint.NoEval('call %s' % nm)
            it = cint.CInt(P, fn, atoms=atoms, call=call, recurse=False, strict=True, max_steps=20000)
            it.atoms = atoms
            orig_store = it.store

            def store(lhs, v, it=it, orig_store=orig_store):
                t = ir.top_nocast(lhs)
                ep = it.elem_lvalue(t) if t[0] in ('idx', 'un') else None
                if ep is not None and ep[1] in ('fmt_buf', 'fmt'):
                    write(ep[1], ep[2], v, it)
                    return
                orig_store(lhs, v)
            it.store = store
            label = 'format %r with %d argument(s)' % (fmt, nargs)
            try:
                r = it.run([INP, POS0, ('ep', 'fmt', 0), 7100])
            except PrintMismatch as x:
                r = ('mismatch', str(x), None)
            ncase += 1
            if r[0] == 'stuck':
                unsup = unsup or '%s: %s at %s' % (label, r[1], P.cfg(fn).describe(r[2]))
                continue
            if r[0] == 'mismatch':
                bad.setdefault('too-few' if 'is fetched' in r[1] else 'literal', '%s: %s' % (label, r[1]))
                continue
            if st['oob']:
                bad.setdefault('scratch', '%s: %s' % (label, st['oob']))
            # walk the expectation against the events
            ev_ = list(st['events'])
            pos = POS0
            k = 0
            short = False
            msg = None
            for e_ in exp:
                if msg:
                    break
                if e_[0] in ('lit', 'pct'):
                    text = e_[1] if e_[0] == 'lit' else '%%'
                    if not ev_ or ev_[0][:2] != ('match', text) or ev_[0][2] != pos:
                        msg = ('literal', 'the text %r is not matched at position %d (next: %s)' % (text, pos, ev_[0] if ev_ else 'nothing'))
                        break
                    ev_.pop(0)
                    pos += len(text) if e_[0] == 'lit' else 1
                    continue
                if k >= nargs:
                    short = True
                    break
                arg = 9000 + k
                k += 1
                letter, spec = e_[2], e_[1]
                if letter == '$':
                    if not ev_ or ev_[0] != ('look', arg, pos):
                        msg = ('spec:$', '%%$ does not look the next argument up at position %d (next: %s)' % (pos, ev_[0] if ev_ else 'nothing'))
                        break
                    ev_.pop(0)
                    pos += 9
                    continue
                if not ev_ or ev_[0][0] != 'read' or ev_[0][1] != spec + '%n' or ev_[0][3] != pos:
                    msg = ('spec:' + letter, 'the specification %r is not read as %r at position %d (next: %s)' % (spec, spec + '%n', pos, ev_[0] if ev_ else 'nothing'))
                    break
                rd = ev_.pop(0)
                if letter == 's':
                    if rd[2] != ('c_str', arg):
                        msg = ('spec:s', '%r is not read into the argument\'s own buffer' % spec)
                        break
                else:
                    has_l = 'l' in spec[:-1]
                    wt = WANT_T.get((letter, has_l)) or WANT_T.get((letter, False))
                    if not (isinstance(rd[2], tuple) and rd[2][0] == 'tmp' and rd[2][1] in wt):
                        msg = ('width:' + letter, '%r stores %s; it is read into %s' % (spec, ' / '.join(sorted(wt)), rd[2][1] if isinstance(rd[2], tuple) and rd[2][0] == 'tmp' else rd[2]))
                        break
                    val = STORED[rd[2][1]]
                    box = {'c': 'Int', 'p': 'Ref'}.get(letter, 'Float' if letter in 'fFeEgGaA' else 'Int')
                    if not ev_ or ev_[0][0] != 'assign' or ev_[0][1] != arg or not (isinstance(ev_[0][2], tuple) and ev_[0][2][0] == 'stack' and ev_[0][2][1] == box and ev_[0][2][2][:1] == (val,)):
                        msg = ('value:' + letter, 'the value read for %r (%s) is not assigned to the argument as it is (next: %s)' % (spec, val, ev_[0] if ev_ else 'nothing'))
                        break
                    ev_.pop(0)
                pos += rd[4]
            if msg:
                bad.setdefault(msg[0], '%s: %s' % (label, msg[1]))
                continue
            if short:
                if not (r[0] == 'term' and r[1] == ('throw', 'FormatError')):
                    bad.setdefault('too-few', '%s: one argument too few: %s' % (label, 'returns' if r[0] == 'ret' else 'raises %s' % (r[1][1] if isinstance(r[1], tuple) else r[1])))
            elif ev_:
                bad.setdefault('literal', '%s: extra reads %s' % (label, ev_[:2]))
            elif not (r[0] == 'ret' and r[1] == pos):
                bad.setdefault('position', '%s: returns %s, the characters written for this format end at position %s' % (label, r[1] if r[0] == 'ret' else r[0], pos))
    return bad, unsup, ncase


# ---------------------------------------------------------------------------------------------------------------------------
# String show / look round trip, evaluated at the level of characters

class RTMismatch(Exception):
    pass


def _tuple_items(e):
    found = []

    def rec(x):
        if isinstance(x, tuple):
            if len(x) == 3 and x[0] == 'compound' and isinstance(x[1], str) and x[1].startswith('var[') and isinstance(x[2], tuple) and x[2][0] == 'initlist':
                found.append(x[2][1])
                return
            for y in x:
                rec(y)
    rec(e)
    return found[0] if len(found) == 1 else None


def eval_string_roundtrip(P):
    """String's show function is evaluated (cint) on strings that contain every character below 128 — alone, doubled, next to a quote,
    a backslash and an ordinary letter — with a sink that renders `print_to` calls (literal text, `%%`, `%c`, `%s`) into text and threads
    the position; String's look function is then evaluated on that text with a source that hands out one character per `%c`.  Required:
    look returns the string that was shown, consumes exactly the characters show wrote (so the next item of a sequence starts where
    this one ended), and show's text starts and ends with a quote that no character of the string can be taken for.
    -> (mismatch show, mismatch look, unsupported, cases)"""
    showf, lookf = P.slot('String', 'Show', 'show'), P.slot('String', 'Show', 'look')
    fshow, flook = P.fn(showf), P.fn(lookf)
    POS0, OUT, INP, DST = 40, 2, 3, ('ep', 'dst', 0)
    tests = [bytes([c]) for c in range(1, 128)] + [bytes([c, c]) for c in (7, 8, 9, 10, 11, 12, 13, 34, 39, 63, 92, 37)] + \
            [b'a' + bytes([c]) + b'b' for c in (34, 92, 10, 63, 37, 39)] + [bytes([c]) + t_ for c in (1, 2, 14, 16, 27, 31, 127) for t_ in (b'a', b'1', b'f0', b'x41')] + \
            [b'\\"', b'"\\', b'\\n', b'\\x41', b'\\101', b'%c', b'%%', b'', b'plain text', b'tab\there "quoted" \\ done?\n']
    bads, badl, unsup, ncase = None, None, None, 0
    for s in tests:
        label = 'the string %r' % s.decode('latin-1')
        # ---- show
        out = []
        state = {'pos': POS0}
        atoms = {('global', 'NULL'): 0, ('global', 'Terminal'): 7777, ('elem', 'self', 0, 'val'): ('ep', 'buf', 0)}
        for i, c in enumerate(s + b'\0'):
            atoms[('elem', 'buf', i, None)] = c

        def argval(x, it):
            v = it.ev(x)
            if isinstance(v, tuple) and v[0] == 'stack':
                return v[2][0]
            return v

        def call_show(nm, e, it):
            if nm == 'print_to_with':
                if it.ev(e[2][0]) != OUT:
                    raise RTMismatch('writes to something that is not the output')
                if it.ev(e[2][1]) != state['pos']:
                    raise RTMismatch('a write is given position %s, the previous one ended at %s' % (it.ev(e[2][1]), state['pos']))
                f = it.ev(e[2][2])
                if not (isinstance(f, tuple) and f[0] == 'str'):
                    raise cint.NoEval('print_to with a format that is not a literal')
                items = [x for x in (_tuple_items(e[2][3]) or ()) if ir.top_nocast(x) != ('global', 'Terminal')]
                k, i, text = 0, 0, []
                fm = f[1]
                while i < len(fm):
                    if fm[i] != '%':
                        text.append(ord(fm[i]) & 0xff)
                        i += 1
                        continue
                    if fm[i + 1:i + 2] == '%':
                        text.append(37)
                        i += 2
                        continue
                    if fm[i + 1:i + 2] == 'c':
                        if k >= len(items):
                            raise RTMismatch('%c without an argument')
                        text.append(argval(items[k], it) & 0xff)
                        k += 1
                        i += 2
                        continue
                    import re as _re
                    m_ = _re.match(r'%([-+ 0#]*)(\d*)(?:\.(\d+))?(l?)([diuxXo])', fm[i:])
                    if m_:
                        if k >= len(items):
                            raise RTMismatch('%s without an argument' % m_.group(0))
                        v_ = argval(items[k], it)
                        if not isinstance(v_, int):
                            raise cint.NoEval('a numeric conversion of %r' % (v_,))
                        if m_.group(5) in 'xXou' and v_ < 0:
                            v_ += 1 << 64
                        spec_ = '%' + m_.group(1) + m_.group(2) + ('.' + m_.group(3) if m_.group(3) else '') + {'i': 'd', 'u': 'd'}.get(m_.group(5), m_.group(5))
                        text.extend((spec_ % v_).encode('latin-1'))
                        k += 1
                        i += len(m_.group(0))
                        continue
                    raise cint.NoEval('conversion %s in a show format' % fm[i:i + 2])
                out.extend(text)
                state['pos'] += len(text)
                return state['pos']
            raise cint.NoEval('call %s' % nm)
        it = cint.CInt(P, fshow, atoms=atoms, call=call_show, recurse=True, strict=True, max_steps=4000)
        it.atoms = atoms
        try:
            r = it.run([('ep', 'self', 0), OUT, POS0])
        except RTMismatch as x:
            bads = bads or '%s: %s' % (label, x)
            continue
        ncase += 1
        if r[0] == 'stuck':
            unsup = unsup or 'show of %s: %s' % (label, r[1])
            continue
        if r[0] != 'ret' or r[1] != state['pos']:
            bads = bads or '%s: show returns %s, its last write ended at %s' % (label, r[1] if r[0] == 'ret' else r[0], state['pos'])
            continue
        text = bytes(out)
        if len(text) < 2 or text[:1] != b'"' or text[-1:] != b'"':
            bads = bads or '%s: shown as %r, which does not start and end with a quotation mark' % (label, text.decode('latin-1'))
            continue
        # ---- look, on the text followed by something else
        src = text + b',x'
        dst = []
        st = {'reads': 0}
        atoms2 = {('global', 'NULL'): 0, ('global', 'Terminal'): 7777}

        def call_look(nm, e, it):
            if nm == 'scan_from_with':
                if it.ev(e[2][0]) != INP:
                    raise RTMismatch('reads from something that is not the input')
                f = it.ev(e[2][2])
                if not (isinstance(f, tuple) and f[0] == 'str' and f[1] in ('%c', '%x', '%X', '%d', '%i', '%u', '%o', '%2x', '%3o', '%lx', '%li')):
                    raise cint.NoEval('scan_from with a format the source does not render')
                p = it.ev(e[2][1]) - POS0
                if not 0 <= p < len(src):
                    raise RTMismatch('reads at offset %d of a text of %d characters' % (p, len(text)))
                items = [x for x in (_tuple_items(e[2][3]) or ()) if ir.top_nocast(x) != ('global', 'Terminal')]
                if len(items) != 1 or ir.top_nocast(items[0])[0] != 'local':
                    raise cint.NoEval('scan_from target')
                st['reads'] += 1
                if st['reads'] > 4 * len(src) + 8:
                    raise RTMismatch('keeps reading')
                if f[1] == '%c':
                    it.locals[ir.top_nocast(items[0])[2]] = ('stack', 'Int', (src[p],))
                    return POS0 + p + 1
                # a numeric conversion, as scanf reads it: white space skipped, then as many digits of the base as follow (up to the width)
                import re as _re
                conv = f[1][-1]
                width = int(_re.sub(r'\D', '', f[1]) or 0)
                q = p
                while q < len(src) and src[q:q + 1] in (b' ', b'\t', b'\n', b'\r', b'\v', b'\f'):
                    q += 1
                digits = {'x': b'0123456789abcdefABCDEF', 'X': b'0123456789abcdefABCDEF', 'o': b'01234567'}.get(conv, b'0123456789')
                q0 = q
                if conv in 'di' and src[q:q + 1] in (b'-', b'+'):
                    q += 1
                while q < len(src) and src[q] in digits and (not width or q - q0 < width):
                    q += 1
                tok = src[q0:q]
                if not tok or tok in (b'-', b'+'):
                    raise RTMismatch('a numeric read finds no digits at offset %d' % p)
                it.locals[ir.top_nocast(items[0])[2]] = ('stack', 'Int', (int(tok, 16 if conv in 'xX' else (8 if conv == 'o' else 10)),))
                return POS0 + q
            if nm == 'c_int':
                v = it.ev(e[2][0])
                if isinstance(v, tuple) and v[0] == 'stack':
                    return v[2][0]
                raise cint.NoEval('c_int of %r' % (v,))
            if nm == 'String_Clear' or (nm == 'clear' and it.ev(e[2][0]) == DST):
                del dst[:]
                return 0
            if nm in ('String_Concat', 'append', 'concat', 'String_Append'):
                if it.ev(e[2][0]) != DST:
                    raise RTMismatch('appends to something that is not the String being read')
                v = it.ev(e[2][1])
                if isinstance(v, tuple) and v[0] == 'stack' and v[1] == 'String':
                    v = v[2][0]
                v = cint._strp(v)
                if not (isinstance(v, tuple) and v[0] == 'ep'):
                    raise cint.NoEval('appended value %r' % (v,))
                for j in range(64):
                    key = ('elem', v[1], v[2] + j, None)
                    if isinstance(v[1], tuple) and v[1][0] == 'strlit':
                        bs = v[1][1].encode('latin-1', 'replace')
                        c = bs[v[2] + j] if v[2] + j < len(bs) else 0
                    elif key in it.atoms:
                        c = it.atoms[key]
                    else:
                        raise RTMismatch('appends a buffer that has no terminator')
                    if c == 0:
                        break
                    dst.append(c & 0xff)
                return 0
            if nm == 'strchr':
                a, c = cint._strp(it.ev(e[2][0])), it.ev(e[2][1])
                if isinstance(a, tuple) and a[0] == 'ep' and isinstance(a[1], tuple) and a[1][0] == 'strlit':
                    bs = a[1][1].encode('latin-1', 'replace') + b'\\0'[:0] + bytes([0])
                    j = bs.find(bytes([c & 0xff]), a[2])
                    return ('ep', a[1], j) if j >= 0 else 0
                raise cint.NoEval('strchr on %r' % (a,))
            raise cint.NoEval('call %s' % nm)
        it2 = cint.CInt(P, flook, atoms=atoms2, call=call_look, recurse=True, strict=True, max_steps=20000)
        it2.atoms = atoms2
        try:
            r2 = it2.run([DST, INP, POS0])
        except RTMismatch as x:
            badl = badl or '%s, shown as %r: look %s' % (label, text.decode('latin-1'), x)
            continue
        if r2[0] == 'stuck':
            unsup = unsup or 'look of %s: %s' % (label, r2[1])
            continue
        if r2[0] != 'ret':
            badl = badl or '%s, shown as %r: look raises %s' % (label, text.decode('latin-1'), r2[1][1] if isinstance(r2[1], tuple) else r2[1])
        elif bytes(dst) != s:
            badl = badl or '%s, shown as %r: look reads it back as %r' % (label, text.decode('latin-1'), bytes(dst).decode('latin-1'))
        elif r2[1] != POS0 + len(text):
            badl = badl or '%s, shown as %r (%d characters): look returns position +%s' % (label, text.decode('latin-1'), len(text), r2[1] - POS0 if isinstance(r2[1], int) else r2[1])
    return bads, badl, unsup, ncase
