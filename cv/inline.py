"""Normalisation of *new* static helpers.

Rules name functions of the library as anchors (GC_Rem_Ptr, List_Pop, ...).  A tidy-up that moves part of such a function
into a freshly named static helper must not change any verdict: a helper whose name is not in the frozen list of function
names the rules were written against (cv/known_functions.txt) is spliced back into its callers before anything else looks
at the program.  The splice is done on the statement IR:

    H(a, b);            ->  { <body of H with parameters bound> }
    x = H(a, b);        ->  { <body>, every `return e` in tail position becoming `x = e` }
    T x = H(a, b);      ->  T x; { ... }
    return H(a, b);     ->  { <body>, returns kept }

Parameters that the helper never assigns and whose argument is an atom (a variable, a function, a constant) are substituted;
the others become fresh locals initialised with the argument.  A helper is spliced only if its returns are in tail position
after the rewrite `if (c) return a; rest`  ->  `if (c) return a; else { rest }` (no return inside a loop unless the call is
itself a `return H(...)`), it is not recursive, and the call is a whole statement; otherwise it is left alone and the
rules see a call to an unknown function, as before.
"""
import copy
import os
from . import ir

_KNOWN = None


def known_names():
    global _KNOWN
    if _KNOWN is None:
        p = os.path.join(os.path.dirname(os.path.abspath(__file__)), 'known_functions.txt')
        _KNOWN = set(l.strip() for l in open(p) if l.strip())
    return _KNOWN


_counter = [0]


def _fresh():
    _counter[0] += 1
    return _counter[0]


def _assigned_params(fn):
    out = set()
    for e in _all_exprs(fn['body']):
        for x in ir.walk(e):
            if x[0] == 'assign' and ir.top_nocast(x[2])[0] == 'param':
                out.add(ir.top_nocast(x[2])[2])
            if x[0] == 'un' and x[1] in ('pre++', 'pre--', 'post++', 'post--') and ir.top_nocast(x[2])[0] == 'param':
                out.add(ir.top_nocast(x[2])[2])
            if x[0] == 'un' and x[1] == '&' and ir.top_nocast(x[2])[0] == 'param':
                out.add(ir.top_nocast(x[2])[2])
    return out


def _all_exprs(s):
    if s is None:
        return
    k = s['k']
    if k == 'block':
        for c in s['body']:
            yield from _all_exprs(c)
    elif k == 'expr':
        yield s['expr']
    elif k == 'decl':
        for d in s['decls']:
            if d['init'] is not None:
                yield d['init']
    elif k == 'return':
        if s['expr'] is not None:
            yield s['expr']
    elif k == 'if':
        yield s['cond']
        yield from _all_exprs(s['then'])
        yield from _all_exprs(s['els'])
    elif k in ('while', 'do'):
        yield s['cond']
        yield from _all_exprs(s['body'])
    elif k == 'for':
        yield from _all_exprs(s['init'])
        if s['cond'] is not None:
            yield s['cond']
        if s['inc'] is not None:
            yield s['inc']
        yield from _all_exprs(s['body'])
    elif k == 'switch':
        yield s['cond']
        yield from _all_exprs(s['body'])
    elif k in ('case', 'default'):
        if k == 'case':
            yield s['val']
        yield from _all_exprs(s['body'])


def _map_stmt(s, fe, fd=None):
    """copy of s with every expression mapped through fe and every declaration through fd"""
    if s is None:
        return None
    s = dict(s)
    k = s['k']
    if k == 'block':
        s['body'] = [_map_stmt(c, fe, fd) for c in s['body']]
    elif k == 'expr':
        s['expr'] = fe(s['expr'])
    elif k == 'decl':
        ds = []
        for d in s['decls']:
            d = dict(d)
            if fd:
                d = fd(d)
            if d['init'] is not None:
                d['init'] = fe(d['init'])
            ds.append(d)
        s['decls'] = ds
    elif k == 'return':
        if s['expr'] is not None:
            s['expr'] = fe(s['expr'])
    elif k == 'if':
        s['cond'] = fe(s['cond'])
        s['then'] = _map_stmt(s['then'], fe, fd)
        s['els'] = _map_stmt(s['els'], fe, fd)
    elif k in ('while', 'do'):
        s['cond'] = fe(s['cond'])
        s['body'] = _map_stmt(s['body'], fe, fd)
    elif k == 'for':
        s['init'] = _map_stmt(s['init'], fe, fd)
        s['cond'] = fe(s['cond']) if s['cond'] is not None else None
        s['inc'] = fe(s['inc']) if s['inc'] is not None else None
        s['body'] = _map_stmt(s['body'], fe, fd)
    elif k == 'switch':
        s['cond'] = fe(s['cond'])
        s['body'] = _map_stmt(s['body'], fe, fd)
    elif k == 'case':
        s['val'] = fe(s['val'])
        s['body'] = _map_stmt(s['body'], fe, fd)
    elif k == 'default':
        s['body'] = _map_stmt(s['body'], fe, fd)
    return s


def _returns(s):
    if s is None:
        return
    k = s['k']
    if k == 'return':
        yield s
    elif k == 'block':
        for c in s['body']:
            yield from _returns(c)
    elif k == 'if':
        yield from _returns(s['then'])
        yield from _returns(s['els'])
    elif k in ('while', 'do', 'for', 'switch', 'case', 'default'):
        yield from _returns(s.get('body'))


def _has_return(s):
    if s is None:
        return False
    k = s['k']
    if k == 'return':
        return True
    if k == 'block':
        return any(_has_return(c) for c in s['body'])
    if k == 'if':
        return _has_return(s['then']) or _has_return(s['els'])
    if k in ('while', 'do', 'for', 'switch', 'case', 'default'):
        return _has_return(s.get('body'))
    return False


class NotInlinable(Exception):
    pass


def _falls_through(s):
    """may control reach the end of s? (conservative: yes unless every path ends in a return)"""
    if s is None:
        return True
    k = s['k']
    if k == 'return':
        return False
    if k == 'block':
        for c in s['body']:
            if not _falls_through(c):
                return False
        return True
    if k == 'if':
        return _falls_through(s['then']) or (s['els'] is None or _falls_through(s['els']))
    return True


def _tailify(stmts, on_return):
    """rewrite a statement list so that returns become `on_return(expr)` statements; only tail-position returns are accepted"""
    out = []
    for i, s in enumerate(stmts):
        rest = stmts[i + 1:]
        if not _has_return(s):
            out.append(s)
            continue
        k = s['k']
        if k == 'return':
            out.extend(on_return(s))
            return out          # anything after a return is dead
        if k == 'block':
            inner = _tailify(s['body'] + ([dict(k='block', body=rest, line=s['line'])] if rest and _falls_through(s) else []), on_return)
            out.append(dict(s, body=inner))
            return out
        if k == 'if':
            t = s['then'] if s['then'] is not None else dict(k='null', line=s['line'])
            e = s['els'] if s['els'] is not None else dict(k='null', line=s['line'])
            tl = [t] + (copy.deepcopy(rest) if _falls_through(t) else [])
            el = [e] + (copy.deepcopy(rest) if _falls_through(e) else [])
            out.append(dict(s, then=dict(k='block', body=_tailify(tl, on_return), line=s['line']),
                            els=dict(k='block', body=_tailify(el, on_return), line=s['line'])))
            return out
        if k == 'switch' and not rest:
            # returns inside the cases of a switch that ends the helper: each becomes on_return + break
            def in_switch(body):
                if body is None:
                    return None
                if body['k'] == 'block':
                    return dict(body, body=[x for c in body['body'] for x in in_switch_list(c)])
                return dict(k='block', body=in_switch_list(body), line=body['line'])

            def in_switch_list(c):
                if c is None:
                    return []
                if c['k'] == 'return':
                    return on_return(c) + [dict(k='break', line=c['line'])]
                if c['k'] in ('case', 'default'):
                    b = in_switch_list(c['body']) if c['body'] is not None else []
                    return [dict(c, body=dict(k='block', body=b, line=c['line']) if len(b) != 1 else b[0])]
                if c['k'] == 'block':
                    return [in_switch(c)]
                if _has_return(c):
                    raise NotInlinable('return nested inside a switch case')
                return [c]
            out.append(dict(s, body=in_switch(s['body'])))
            return out
        raise NotInlinable('return inside %s' % k)
    return out


def _instantiate(helper, args, line, in_place=()):
    """(prologue statements, body statements) of one instance of the helper with its parameters bound.  in_place: parameter indices
    that the helper updates and whose final value the caller stores back into the very variable it passed (`pos = H(out, pos, ...)`
    with every return of H being `return pos`): the caller's variable takes the parameter's place."""
    tag = _fresh()
    assigned = _assigned_params(helper) - set(in_place)
    subst, prologue = {}, []
    for i, (pn, pt) in enumerate(helper['params']):
        a = args[i] if i < len(args) else ('int', 0)
        t = ir.top_nocast(a)
        if i not in assigned and t[0] in ('param', 'local', 'func', 'global', 'int', 'enum', 'zero', 'str'):
            subst[i] = a
        else:
            nid = '%s$%s$%d' % (helper['name'], pn, tag)
            prologue.append(dict(k='decl', line=line, decls=[{'name': '%s$%s' % (helper['name'], pn), 'id': nid, 'init': a, 'type': pt,
                                                              'qual': pt, 'static': False}]))
            subst[i] = ('local', '%s$%s' % (helper['name'], pn), nid)
    ren = {}

    def fd(d):
        nid = '%s$%d' % (d['id'], tag)
        ren[d['id']] = nid
        return dict(d, id=nid)

    def fe(e):
        def f(x):
            if x[0] == 'param':
                return subst.get(x[2], x)
            if x[0] == 'local' and x[2] in ren:
                return ('local', x[1], ren[x[2]])
            return x
        return ir.rebuild(e, f)
    # two passes: declarations must be renamed before uses are mapped (ids are collected on the way)
    body = _map_stmt(helper['body'], lambda e: e, fd)
    body = _map_stmt(body, fe, None)
    return prologue, body


def _calls_whole(e):
    """if e is `H(args)`, `lhs = H(args)` (plain assignment) return (lhs or None, call)"""
    t = ir.top_nocast(e)
    if t[0] == 'call' and ir.callee_name(t):
        return None, t
    if t[0] == 'assign' and t[1] == '=':
        r = ir.top_nocast(t[3])
        if r[0] == 'call' and ir.callee_name(r):
            return t[2], r
    return None


# functions outside the unit that only compute an address from their argument (duplicating a call to one of them changes nothing)
PURE_EXTERN = {'header'}


def _expression_template(h, funcs):
    """If the helper is an expression in disguise — local declarations with initialisers followed by `return e`, nothing assigned,
    nothing address-taken — return (e with the locals expanded, number of uses of each parameter, is-pure flag per duplicated part
    is checked here); else None."""
    b = h['body']
    stmts = b['body'] if b['k'] == 'block' else [b]
    if not stmts or stmts[-1]['k'] != 'return' or stmts[-1]['expr'] is None:
        return None
    inits = {}
    guards = []          # `if (c) return e;` steps before the final return: the helper is c1 ? e1 : (c2 ? e2 : ... final)
    for st in stmts[:-1]:
        if st['k'] == 'decl' and not guards:
            for d in st['decls']:
                if d['init'] is None or d.get('static'):
                    return None
                inits[d['id']] = d['init']
            continue
        if st['k'] == 'if' and st['els'] is None and st['then'] is not None:
            t = st['then']
            body = t['body'] if t['k'] == 'block' else [t]
            if len(body) == 1 and body[0]['k'] == 'return' and body[0]['expr'] is not None:
                guards.append((st['cond'], body[0]['expr']))
                continue
        return None
    final = stmts[-1]['expr']
    rtype0 = (h.get('type') or '').split('(')[0].strip()
    for c, e in reversed(guards):
        ce = ir.top_nocast(e)
        lit = ce[1] if ce[0] == 'int' else None
        if rtype0 in ('bool', '_Bool') and lit in (0, 1):
            # bool-valued: c ? true : X  ==  c || X ;  c ? false : X  ==  !c && X   (keeps the conditions splittable in the flow graph)
            final = ('bin', '||', c, final) if lit == 1 else ('bin', '&&', ('un', '!', c), final)
        else:
            final = ('cond', c, e, final)
    stmts = list(stmts[:-1]) + [dict(stmts[-1], expr=final)]
    exprs = list(inits.values()) + [final]
    for e in exprs:
        for x in ir.walk(e):
            if x[0] == 'assign' or (x[0] == 'un' and x[1] in ('pre++', 'pre--', 'post++', 'post--')):
                return None
            if x[0] == 'un' and x[1] == '&' and ir.top_nocast(x[2])[0] in ('local', 'param'):
                return None
            if x[0] in ('compound', 'initlist', 'va_arg'):
                return None

    def pure(e, depth=0):
        for x in ir.walk(e):
            if x[0] == 'call':
                nm = ir.callee_name(x)
                if nm in PURE_EXTERN:
                    continue
                f = funcs.get(nm)
                if f is None or f.get('body') is None or depth > 2:
                    return False
                fb = f['body']['body'] if f['body']['k'] == 'block' else [f['body']]
                if len(fb) != 1 or fb[0]['k'] != 'return' or fb[0]['expr'] is None or not pure(fb[0]['expr'], depth + 1):
                    return False
                if any(y[0] == 'assign' for y in ir.walk(fb[0]['expr'])):
                    return False
        return True

    def uses(e, what):
        return sum(1 for x in ir.walk(e) if x[0] == 'local' and x[2] == what)
    # expand the locals (declaration order: later initialisers may mention earlier locals)
    order = list(inits)
    expanded = {}
    for lid in order:
        e = inits[lid]
        e = ir.rebuild(e, lambda x: expanded[x[2]] if x[0] == 'local' and x[2] in expanded else x)
        expanded[lid] = e
    ret = stmts[-1]['expr']
    for lid in order:
        total = uses(ret, lid) + sum(uses(inits[o], lid) for o in order)
        if total > 1 and not pure(expanded[lid]):
            return None
        if total == 0 and not pure(expanded[lid]):
            return None       # an initialiser evaluated for its effect
    tmpl = ir.rebuild(ret, lambda x: expanded[x[2]] if x[0] == 'local' and x[2] in expanded else x)
    if any(x[0] == 'local' for x in ir.walk(tmpl)):
        return None
    nuse = {}
    for x in ir.walk(tmpl):
        if x[0] == 'param':
            nuse[x[2]] = nuse.get(x[2], 0) + 1
    return tmpl, nuse, pure


def substitute_expression_helpers(functions_of_unit, names):
    """Replace calls to the named helpers that are expressions in disguise by the expression, wherever they occur (conditions
    included).  An argument that would be evaluated a different number of times than in the call (parameter unused, or used more
    than once) must be free of effects."""
    count = 0
    for _round in range(3):
        tmpls = {}
        for n in names:
            h = functions_of_unit.get(n)
            if h is None or h.get('body') is None:
                continue
            if any(ir.callee_name(c) == n for c, _ in ir.all_calls(h['body'])):
                continue
            t = _expression_template(h, functions_of_unit)
            if t is not None:
                tmpls[n] = (t, h)
        if not tmpls:
            break
        changed = 0
        for fname, f in list(functions_of_unit.items()):
            if f.get('body') is None:
                continue
            hit = [0]

            def fe(e):
                def g(x):
                    if x[0] != 'call' or ir.callee_name(x) not in tmpls or ir.callee_name(x) == fname:
                        return x
                    (tmpl, nuse, pure), h = tmpls[ir.callee_name(x)]
                    args = list(x[2])
                    if len(args) != len(h['params']):
                        return x
                    for i, a in enumerate(args):
                        if nuse.get(i, 0) != 1 and ir.top_nocast(a)[0] not in ('param', 'local', 'func', 'global', 'int', 'enum', 'zero', 'str') and not pure(a):
                            return x
                    hit[0] += 1
                    rtype = (h.get('type') or '').split('(')[0].strip()
                    body = ir.rebuild(tmpl, lambda y: args[y[2]] if y[0] == 'param' else y)
                    tb = ir.top_nocast(body)
                    logical = (tb[0] == 'bin' and tb[1] in ('<', '>', '<=', '>=', '==', '!=', '&&', '||')) or (tb[0] == 'un' and tb[1] == '!')
                    if rtype in ('bool', '_Bool') and logical:
                        return body
                    return ('cast', rtype, body) if rtype and rtype not in ('void',) else body
                return ir.rebuild(e, g)
            nb = _map_stmt(f['body'], fe, None)
            if hit[0]:
                g2 = dict(f)
                g2['body'] = nb
                g2['spliced'] = True
                functions_of_unit[fname] = g2
                changed += hit[0]
        count += changed
        if not changed:
            break
    return count



def splice_into(fn, helpers):
    """copy of fn with the calls to the given helpers (name -> fn dict) spliced in, whatever their names"""
    tmp = {fn['name']: fn}
    tmp.update(helpers)
    splice_new_helpers(tmp, force=set(helpers))
    return tmp[fn['name']]


def splice_new_helpers(functions_of_unit, force=None, globals_of_unit=None):
    """functions_of_unit: name -> fn dict (one unit).  Returns the number of call sites spliced; fn dicts are replaced by copies."""
    known = known_names()
    if force is not None:
        new = {n: f for n, f in functions_of_unit.items() if n in force and f.get('body') is not None}
    else:
        new = {n: f for n, f in functions_of_unit.items() if n not in known and f.get('body') is not None}
    if not new:
        return 0
    all_new = list(new)
    nsub = 0
    # helpers that call themselves (directly) are left alone; so are pure accessors (`return expr;`), which the normaliser
    # already expands wherever an expression mentions them
    for n in list(new):
        b = new[n]['body']
        stmts = b['body'] if b['k'] == 'block' else [b]
        if any(ir.callee_name(c) == n for c, _ in ir.all_calls(b)):
            del new[n]
        elif force is None and len(stmts) == 1 and stmts[0]['k'] == 'return':
            del new[n]
    count = [0]

    def rewrite_list(stmts, depth):
        out = []
        for s in stmts:
            out.extend(rewrite(s, depth))
        return out

    def as_block(lst, line):
        return lst[0] if len(lst) == 1 else dict(k='block', body=lst, line=line)

    def hoist(s):
        k = s['k']
        if k == 'decl':
            if len(s['decls']) != 1 or s['decls'][0]['init'] is None:
                return None
            top = s['decls'][0]['init']
        else:
            top = s['expr']
        if top is None:
            return None
        tt = ir.top_nocast(top)
        whole = tt if tt[0] == 'call' else (ir.top_nocast(tt[3]) if tt[0] == 'assign' and tt[1] == '=' else None)
        cands = [x for x in ir.walk(top) if x[0] == 'call' and ir.callee_name(x) in new and x is not whole]
        if len(cands) != 1:
            return None
        c = cands[0]
        # every other call must enclose c
        inside = [y for y in ir.walk(c)]
        for x in ir.walk(top):
            if x[0] == 'call' and x is not c and not any(y is c for y in ir.walk(x)) and not any(y is x for y in inside):
                return None
            if x[0] in ('assign',) and x is not tt:
                return None
            if x[0] == 'un' and x[1] in ('pre++', 'pre--', 'post++', 'post--'):
                return None
            if x[0] in ('cond',) or (x[0] == 'bin' and x[1] in ('&&', '||')):
                if any(y is c for y in ir.walk(x)):
                    return None       # conditionally evaluated
        tid = '%s$ret$%d' % (ir.callee_name(c), _fresh())
        tmp = ('local', '%s$ret' % ir.callee_name(c), tid)
        h = new[ir.callee_name(c)]
        rtype = (h.get('type') or 'void *').split('(')[0].strip()

        def repl(e):
            return ir.rebuild(e, lambda x: tmp if x is c or x == c else x)
        d = dict(k='decl', line=s.get('line'), decls=[{'name': tmp[1], 'id': tid, 'init': c, 'type': rtype, 'qual': rtype, 'static': False}])
        if k == 'decl':
            s2 = dict(s, decls=[dict(s['decls'][0], init=repl(top))])
        else:
            s2 = dict(s, expr=repl(top))
        return [d, s2]

    def lower_cond(s):
        k = s['k']
        line = s.get('line')
        if k == 'decl':
            if len(s['decls']) != 1 or s['decls'][0]['init'] is None:
                return None
            d = s['decls'][0]
            top, lhs = ir.top_nocast(d['init']), ('local', d['name'], d['id'])
        elif k == 'return':
            if s['expr'] is None:
                return None
            top, lhs = ir.top_nocast(s['expr']), None
        else:
            t = ir.top_nocast(s['expr'])
            if t[0] != 'assign' or t[1] != '=':
                return None
            top, lhs = ir.top_nocast(t[3]), t[2]
        if top[0] != 'cond':
            return None
        if not any(x[0] == 'call' and ir.callee_name(x) in new for arm in (top[2], top[3]) for x in ir.walk(arm)):
            return None

        def arm(e):
            if lhs is None:
                return dict(k='return', line=line, expr=e)
            return dict(k='expr', line=line, expr=('assign', '=', lhs, e))
        out = []
        if k == 'decl':
            out.append(dict(s, decls=[dict(s['decls'][0], init=None)]))
        out.append(dict(k='if', line=line, cond=top[1], then=dict(k='block', line=line, body=[arm(top[2])]), els=dict(k='block', line=line, body=[arm(top[3])])))
        return out

    def rewrite(s, depth):
        if s is None:
            return [s]
        k = s['k']
        line = s.get('line')
        if k == 'block':
            return [dict(s, body=rewrite_list(s['body'], depth))]
        if k == 'if':
            return [dict(s, then=as_block(rewrite(s['then'], depth), line) if s['then'] is not None else None,
                         els=as_block(rewrite(s['els'], depth), line) if s['els'] is not None else None)]
        if k in ('while', 'do', 'switch', 'case', 'default'):
            return [dict(s, body=as_block(rewrite(s['body'], depth), line) if s.get('body') is not None else None)]
        if k == 'for':
            return [dict(s, body=as_block(rewrite(s['body'], depth), line) if s['body'] is not None else None)]
        # `x = c ? A : B` / `T x = c ? A : B` / `return c ? A : B` with a helper call in one arm: lowered to if/else first
        if k in ('expr', 'return', 'decl') and depth <= 3:
            low = lower_cond(s)
            if low is not None:
                return rewrite_list(low, depth)
        # a helper call nested as an argument of other calls (`return f(m, H(x))`) is first hoisted into a temporary; this keeps
        # the evaluation order when every other call of the statement encloses it (arguments are evaluated before the call)
        if k in ('expr', 'return', 'decl') and depth <= 3:
            hoisted = hoist(s)
            if hoisted is not None:
                return rewrite_list(hoisted, depth)
        target = None
        if k == 'expr':
            cw = _calls_whole(s['expr'])
            if cw:
                lhs, call = cw
                target = ('assign', lhs) if lhs is not None else ('drop', None)
        elif k == 'return' and s['expr'] is not None:
            t = ir.top_nocast(s['expr'])
            if t[0] == 'call' and ir.callee_name(t):
                call = t
                target = ('return', None)
        elif k == 'decl' and len(s['decls']) == 1 and s['decls'][0]['init'] is not None:
            t = ir.top_nocast(s['decls'][0]['init'])
            if t[0] == 'call' and ir.callee_name(t):
                call = t
                d = s['decls'][0]
                target = ('assign', ('local', d['name'], d['id']))
        if target is None or ir.callee_name(call) not in new or depth > 3:
            return [s]
        h = new[ir.callee_name(call)]
        in_place = ()
        if target[0] == 'assign' and ir.top_nocast(target[1])[0] in ('param', 'local'):
            tv = ir.top_nocast(target[1])
            idxs = [i for i, a in enumerate(call[2]) if ir.top_nocast(a)[:3] == tv[:3]]
            if len(idxs) == 1 and idxs[0] in _assigned_params(h) and not any(x[0] == 'un' and x[1] == '&' and ir.top_nocast(x[2]) == ('param', h['params'][idxs[0]][0], idxs[0])
                                                                             for e in _all_exprs(h['body']) for x in ir.walk(e)):
                rets = [r for r in _returns(h['body'])]
                if rets and all(r['expr'] is not None and ir.top_nocast(r['expr'])[0] == 'param' and ir.top_nocast(r['expr'])[2] == idxs[0] for r in rets):
                    in_place = (idxs[0],)
        try:
            prologue, body = _instantiate(h, list(call[2]), line, in_place)
            if target[0] == 'return':
                inner = body['body'] if body['k'] == 'block' else [body]
                res = [dict(k='block', line=line, body=prologue + inner)]
            else:
                def on_return(r, target=target):
                    if target[0] == 'assign' and r['expr'] is not None:
                        return [dict(k='expr', line=r['line'], expr=('assign', '=', target[1], r['expr']))]
                    if r['expr'] is not None:
                        return [dict(k='expr', line=r['line'], expr=r['expr'])]
                    return []
                inner = _tailify(body['body'] if body['k'] == 'block' else [body], on_return)
                res = []
                if k == 'decl':
                    res.append(dict(s, decls=[dict(s['decls'][0], init=None)]))
                res.append(dict(k='block', line=line, body=prologue + inner))
        except NotInlinable:
            return [s]
        count[0] += 1
        # the spliced body may itself call new helpers
        return rewrite_list(res, depth + 1)
    for n, f in list(functions_of_unit.items()):
        if f.get('body') is None:
            continue
        before = count[0]
        nb = as_block(rewrite(copy.deepcopy(f['body']), 0), f.get('line'))
        if count[0] != before:
            g = dict(f)
            g['body'] = nb
            g['spliced'] = True
            functions_of_unit[n] = g
    # call sites the statement-level splice could not take (a call inside a condition, a helper with a return inside a loop called from
    # an expression, ...): helpers that are expressions in disguise are substituted in place
    if force is None:
        nsub = substitute_expression_helpers(functions_of_unit, all_new)
    # a new static helper that nothing refers to any more (every call was spliced or substituted) is dead code: rules that look at every
    # function of a unit must not see its body a second time
    if force is None and (count[0] or nsub):
        for n in all_new:
            f = functions_of_unit.get(n)
            if f is None or not f.get('static'):
                continue
            used = False
            for m, g_ in functions_of_unit.items():
                if m == n or g_.get('body') is None:
                    continue
                for e in _all_exprs(g_['body']):
                    if any(x[0] == 'func' and x[1] == n for x in ir.walk(e)):
                        used = True
                        break
                if used:
                    break
            for g_ in (globals_of_unit or {}).values():          # a function stored in a table (an instance of a type class) is alive
                if g_.get('init') is not None and any(isinstance(x, tuple) and x and x[0] == 'func' and x[1] == n for x in ir.walk(g_['init'])):
                    used = True
            if not used:
                del functions_of_unit[n]
    return count[0] + nsub
