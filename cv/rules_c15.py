"""C15 — show/look and print/scan round-trip values (structural necessary conditions)."""
from . import ir, util, poly
from .report import site
from .front import AnalysisBroken
from .rules_c12 import guards_of, dominated_by_guard, throw_only, succ_of
from .rules_c14 import letter_tests, branch_nodes, current_char_names

UNITS = ['src/Show.c', 'src/String.c', 'src/Num.c', 'src/File.c', 'src/Exception.c']


def switch_cases(g, sw):
    """{case value: first node id} of a switch node"""
    out = {}
    for (v, l) in sw['succ']:
        if isinstance(l, tuple) and l[0] == 'case':
            out[util.const_int(l[1])] = v
    return out


def case_body(g, sw, start):
    """nodes from a case label up to (not including) the statement after the switch; stops at break (edge to the switch's join)"""
    others = [v for (v, l) in sw['succ'] if v != start]
    out = []
    cur = start
    seen = set()
    while cur is not None and cur not in seen:
        seen.add(cur)
        n = g.nodes[cur]
        out.append(n)
        if n['kind'] in ('term', 'ret') or len(n['succ']) != 1:
            break
        nxt = n['succ'][0][0]
        cur = nxt
        if len(out) > 6:
            break
    return out


def check_escape_tables(P, ctx):
    """the String writer and reader are inverse to each other, character by character — evaluated (printmodel.eval_string_roundtrip):
    show on strings containing every character below 128 in several neighbourhoods, then look on the text show produced"""
    from . import printmodel
    rule = 'C15.escape-tables'
    fs, fl = P.fn(P.slot('String', 'Show', 'show')), P.fn(P.slot('String', 'Show', 'look'))
    ctx.fn(fs)
    ctx.fn(fl)
    bads, badl, unsup, ncase = printmodel.eval_string_roundtrip(P)
    ctx.stats['paths'] += ncase
    for fn, bad, key, text in ((fs, bads, 'String_Show', 'show writes the string between two quotation marks, every write where the previous one ended, and returns the last position'),
                               (fl, badl, 'String_Look', 'look reads back exactly the string that was shown — escapes, quotes, backslashes and control characters included — and consumes exactly '
                                                         'the characters show wrote')):
        if unsup and not bad:
            ctx.undecided(rule, key, site(fn), 'leaves the evaluated fragment: ' + unsup)
        else:
            ctx.check(bad is None, rule, key, site(fn), text + ' (%d strings evaluated)' % ncase, [bad] if bad else None)
    ctx.floor(rule, 2)


def check_one_char(P, ctx):
    # (one character appended per step of the reader: part of the round trip evaluated by check_escape_tables)
    return


def check_specs(P, ctx):
    rule = 'C15.spec-agreement'
    for T in ('Int', 'Float'):
        fs, fl = P.fn(P.slot(T, 'Show', 'show')), P.fn(P.slot(T, 'Show', 'look'))
        ctx.fn(fs)
        ctx.fn(fl)

        def spec(fn, callee):
            cs = [c for c, _ in ir.all_calls(fn['body']) if ir.callee_name(c) == callee]
            if len(cs) != 1:
                return None, None
            tp = ir.as_tuple(cs[0][2][3])
            return ir.top_nocast(cs[0][2][2]), tp
        a, ta = spec(fs, 'print_to_with')
        b, tb = spec(fl, 'scan_from_with')
        ok = a is not None and a == b and a[0] == 'str' and ta == (('param', 'self', 0),) and tb == (('param', 'self', 0),)
        ctx.check(ok, rule, T, site(fl), '%s is written and read back with the same conversion specification, on the object itself' % T,
                  ['show uses %s, look uses %s' % (ir.fmt(a) if a else None, ir.fmt(b) if b else None)])
    ctx.floor(rule, 2)


def check_scan(P, ctx):
    """scan_from_with, decided by evaluating it on concrete format strings (cv/printmodel.py eval_scan): the reader consumes for every
    piece of the format exactly what the writer produced for it, reads every conversion into something of the width scanf stores, and
    hands the value on unchanged"""
    from . import printmodel
    fn = P.fn('scan_from_with')
    ctx.fn(fn)
    s = site(fn)
    bad, unsup, ncase = printmodel.eval_scan(P)
    ctx.stats['paths'] += ncase

    def emit(rule, key, aspects, text):
        msgs = [bad[a] for a in bad if any(a == x or (x.endswith(':') and a.startswith(x)) for x in aspects)]
        if unsup and not msgs:
            ctx.undecided(rule, key, s, 'scan_from_with leaves the evaluated fragment: ' + unsup)
        else:
            ctx.check(not msgs, rule, key, s, text + ' (%d format/argument combinations evaluated)' % ncase, msgs[:1] or None)
    rule = 'C15.position'
    for key, asp, text in (
            ('literal', ['literal'], 'literal text is matched against the input and advances the position by its length'),
            ('percent', ['position', 'literal'], '%% is matched against the input and advances the position by the one character the writer produced for it'),
            ('percent-n', ['spec:'], '%n is appended to every copied specification and its counter is handed to each read'),
            ('counted-once', ['position', 'spec:'], 'the consumed-character count of every read is added to the position exactly once; the final position is returned'),
            ('show', ['spec:$'], '%$ reads through look_from at the current position and takes the position it returns'),
            ('string', ['spec:s'], '%s reads into the argument\'s own buffer with the copied specification'),
            ('too-few', ['too-few'], 'one argument too few raises FormatError at that specification'),
            ('scratch', ['scratch'], 'the scratch buffer has room for the longest specification plus "%n" and the terminator; every store lies inside it')):
        emit(rule, key, asp, text)
    emit('C15.spec-local-decisions', 'scan_from_with', ['width:', 'value:'],
         'how a value is read (e.g. as float or double) depends only on the current conversion letter and on the specification copied for it, never on the rest of the caller\'s format string')
    emit('C15.float-width', 'scan_from_with', ['width:f', 'width:F', 'width:e', 'width:E', 'width:g', 'width:G', 'width:a', 'width:A', 'value:f', 'value:e', 'value:g'],
         'a floating conversion with the `l` modifier is read into a double, without it into a float — the temporary matches what scanf stores')
    emit('C15.int-width', 'scan_from_with', ['width:d', 'width:i', 'width:u', 'width:o', 'width:x', 'width:X', 'value:d', 'value:i', 'value:u', 'value:o', 'value:x', 'value:X', 'width:c', 'value:c', 'width:p', 'value:p'],
         'an integer conversion is read into an int (d, i), an unsigned int (u, o, x, X) or, with the `l` modifier, a long; %c into a char, %p into a pointer — the temporary matches what '
         'scanf stores, and the value goes to the argument unchanged (a negative number read with %i stays negative)')
    ctx.floor('C15.position', 8)


def check_int_assign_exact(P, ctx):
    """look / scan deliver an Int through assign(target, $I(value)): Int's assign from an Int source must copy the 64-bit value
    as it is.  The path taken for an Int source is determined from the instance tables (implements(obj, C) is true exactly for the
    classes Int declares); on that path the stored value must not pass through a floating-point conversion (values above 2^53 and
    INT64_MAX do not survive one)."""
    rule = 'C15.int-assign-exact'
    fn = P.fn(P.slot('Int', 'Assign', 'assign'))
    g = P.cfg(fn, lower_ternary=True)
    ctx.fn(fn)
    have = set(P.types['Int']['instances'])
    N = util.Norm(P, fn, expand_locals=True, inline=False)
    bad = None
    npaths = 0
    for path in g.paths(max_visits=1):
        if util.path_end(path)[0] not in ('ret', 'fall'):
            continue
        feasible = True
        for (n, label) in path:
            if n['kind'] != 'cond':
                continue
            c = N.canon(n['expr'])
            val = None
            if c[0] == 'call' and ir.callee_name(c) in ('implements', 'type_implements') and len(c[2]) == 2 and c[2][1][0] == 'global':
                val = c[2][1][1] in have
            elif c[0] == 'bin' and c[1] in ('==', '!=') and any(x[0] == 'call' and ir.callee_name(x) == 'type_of' for x in (c[2], c[3])):
                o = c[3] if c[2][0] == 'call' else c[2]
                if o[0] == 'global':
                    val = (o[1] == 'Int') == (c[1] == '==')
            if val is not None and val != label:
                feasible = False
                break
        if not feasible:
            continue
        npaths += 1
        for ev in util.path_events(path):
            if ev['t'] == 'write' and util.field_name(ev['lhs']) == 'val' and ev['rhs'] is not None:
                for x in ir.walk(ev['rhs']):
                    if (x[0] in ('cast', 'icast') and x[1] in ('double', 'float', 'long double')) or \
                            (x[0] == 'call' and ir.callee_name(x) in ('c_float', 'Int_C_Float', 'Float_C_Float')):
                        bad = bad or 'for an Int source the value stored is `%s`: it passes through a floating-point conversion' % ir.fmt(ir.canon(ev['rhs']))[:70]
    ctx.check(bad is None and npaths > 0, rule, fn['name'], site(fn), 'assigning an Int to an Int copies the 64-bit value without a floating-point detour', [bad] if bad else None)
    ctx.floor(rule, 1)


FMTPOS = {'format_to': 2, 'format_to_va': 2, 'print_to_with': 2, 'scan_from_with': 2, 'format_from': 2, 'format_from_va': 2, 'sscanf': 1, 'vsscanf': 1,
          'snprintf': 2, 'vsnprintf': 2, 'sprintf': 1, 'fprintf': 1, 'vfprintf': 1, 'printf': 0, 'vprintf': 0, 'fscanf': 1, 'vfscanf': 1,
          'print_with': 0, 'println_with': 0, 'scan_with': 0, 'scanln_with': 0}


def check_float_assign_and_look_from(P, ctx):
    """(a) scan delivers a Float through assign(target, $F(value)): Float's assign stores the double it is given, whatever its magnitude —
    evaluated for values across the double range; (b) look_from returns what the type's look member returns — the position after what was
    read, which scan_from_with and every caller that reads a sequence continues from — evaluated."""
    from . import cint
    rule = 'C15.float-assign-exact'
    fn = P.fn(P.slot('Float', 'Assign', 'assign'))
    ctx.fn(fn)
    bad, unsup = None, None
    for v in (0.0, 1.5, -2.25, 3.5e38, -3.5e38, 1e300, -1e300, 5e-324, float('inf'), float('-inf')):
        atoms = {('global', 'NULL'): 0, ('elem', 'self', 0, 'val'): 123.0}

        def call(nm, e, it, v=v):
            if nm in ('c_float', 'Float_C_Float'):
                return v
            if nm == 'cast':
                return it.ev(e[2][0])
            raise cint.NoEval('call %s' % nm)
        it = cint.CInt(P, fn, atoms=atoms, call=call, recurse=False, strict=True)
        it.atoms = atoms
        try:
            r = it.run([('ep', 'self', 0), 9000])
        except Exception as x:            # an arithmetic the evaluator has no meaning for
            unsup = unsup or '%r: %s' % (v, x)
            continue
        if r[0] != 'ret':
            unsup = unsup or '%r: %s' % (v, r[1])
        elif atoms[('elem', 'self', 0, 'val')] != v:
            bad = bad or 'assigned %r, the Float holds %r' % (v, atoms[('elem', 'self', 0, 'val')])
    if unsup and not bad:
        ctx.undecided(rule, fn['name'], site(fn), 'leaves the evaluated fragment: ' + unsup)
    else:
        ctx.check(bad is None, rule, fn['name'], site(fn), 'assigning a double to a Float stores that double (values up to 1e300, the infinities and the smallest denormal evaluated)', [bad] if bad else None)
    ctx.floor(rule, 1)
    rule = 'C15.look-returns-the-position'
    fn = P.fn('look_from')
    ctx.fn(fn)
    bad, unsup = None, None
    for pos, end in ((0, 5), (15, 25), (27, 49)):
        ev_ = []

        def call(nm, e, it, end=end, ev_=ev_):
            if nm == 'method_at_offset':
                return ('ep', 'show', 0)
            if nm is None:
                ev_.append([it.ev(a) for a in e[2]])
                return end
            raise cint.NoEval('call %s' % nm)
        atoms = {('global', 'NULL'): 0, ('global', 'Show'): 8600, ('elem', 'show', 0, 'look'): 4242, ('elem', 'show', 0, 'show'): 4241, ('offsetof',): 8}
        it = cint.CInt(P, fn, atoms=atoms, call=call, recurse=False, strict=True)
        it.atoms = atoms
        r = it.run([5000, 3, pos])
        if r[0] != 'ret' or not isinstance(r[1], int):
            unsup = unsup or 'from position %d: %s' % (pos, r[1])
        elif ev_ != [[5000, 3, pos]]:
            bad = bad or 'from position %d: the look member is called with %s' % (pos, ev_)
        elif r[1] != end:
            bad = bad or 'the look member read from position %d to %d; look_from returns %d' % (pos, end, r[1])
    if unsup and not bad:
        ctx.undecided(rule, 'look_from', site(fn), 'leaves the evaluated fragment: ' + unsup)
    else:
        ctx.check(bad is None, rule, 'look_from', site(fn), 'look_from hands (self, input, pos) to the type\'s look member and returns its result, the position after what was read', [bad] if bad else None)
    ctx.floor(rule, 1)


def check_data_never_format(P, ctx, rule='C15.data-is-never-a-format'):
    """text that came from an object (a String's characters, a name) reaches a formatting routine only as an argument: used as the format
    it is interpreted again (`%%` collapses, a lone `%` consumes an argument that is not there), so what is written — or what look appends
    for a character it has just read — is not what the object holds.  Every call of a formatting routine in the library passes a string
    literal, the caller's own format parameter, or a local buffer (the copied specification of print_to_with / scan_from_with)."""
    n = 0
    for fn in P.all_functions():
        if not fn['unit'].startswith('src/') or fn.get('body') is None:
            continue
        okf = util.format_sources(fn)
        for c, ln in ir.all_calls(fn['body']):
            nm = ir.callee_name(c)
            if nm in FMTPOS and len(c[2]) > FMTPOS[nm]:
                a = ir.top_nocast(c[2][FMTPOS[nm]])
                n += 1
                ok = okf(a)
                if not ok:
                    ctx.fn(fn)
                    ctx.refuted(rule, '%s:%s' % (fn['name'], nm), site(fn, ln), 'the format handed to %s is `%s`: data, not a literal, the caller\'s format or a copied specification' % (nm, ir.fmt(a)[:60]))
    ctx.check(n >= 30, rule, 'formatting-calls', 'src/', '%d calls of formatting routines pass a literal, the caller\'s own format parameter or a local specification buffer' % n)
    ctx.floor(rule, 1)


def run(ctx, load):
    P = load(UNITS, 'default')
    ctx.stats['units'] = set(UNITS)
    ctx.stats['configs'] = ['default']
    check_escape_tables(P, ctx)
    check_one_char(P, ctx)
    check_specs(P, ctx)
    check_scan(P, ctx)
    check_int_assign_exact(P, ctx)
    check_float_assign_and_look_from(P, ctx)
    # the writer side of the round trip: print_to_with hands every numeric argument to the sink unchanged (no narrowing), per
    # specification letter, and counts what was written (shared with C14)
    from .rules_c14 import check_print
    before = len(ctx.obs)
    check_print(P, ctx)
    for o in ctx.obs[before:]:
        o['rule'] = 'C15.writer-' + o['rule'].split('.', 1)[1]
    for k in list(ctx.floors):
        if k[0].startswith('C14.'):
            ctx.floors.pop(k)
    ctx.floor('C15.writer-specifier-table', 8)
    # the File source reads through vfscanf with the copied specification and the caller's arguments, nothing in between (shared with C20)
    from .rules_c20 import check_type
    before = len(ctx.obs)
    check_type(P, ctx, 'File')
    keep = [o for o in ctx.obs[before:] if 'format_from' in o['key'] or 'format_to' in o['key']]
    for o in keep:
        o['rule'] = 'C15.file-source-and-sink'
    ctx.obs[before:] = keep
    for k in list(ctx.floors):
        if k[0].startswith('C20.'):
            ctx.floors.pop(k)
    ctx.floor('C15.file-source-and-sink', 2)
    # show functions use constant formats (shared with C14)
    from .rules_c14 import check_show_to
    before = len(ctx.obs)
    check_show_to(P, ctx)
    for o in ctx.obs[before:]:
        o['rule'] = o['rule'].replace('C14.', 'C15.')
    for k in list(ctx.floors):
        if k[0].startswith('C14.'):
            ctx.floors.pop(k)
    ctx.floor('C15.literal-formats', 3)
    # the String sink keeps every character it was given and reports their number (shared with C14 / C16): a dropped
    # character shifts everything written after it and the reader then sees different text
    from .rules_c14 import check_string_sink
    before = len(ctx.obs)
    check_string_sink(P, ctx)
    for o in ctx.obs[before:]:
        o['rule'] = 'C15.sink-keeps-all'
    for k in list(ctx.floors):
        if k[0].startswith('C14.'):
            ctx.floors.pop(k)
    ctx.floor('C15.sink-keeps-all', 2)
    check_data_never_format(P, ctx)
    # look reads into Strings wherever they live — inside containers too: the allocation-class tests of String refuse only stack / static
    # objects (shared with C18)
    from . import rules_c18
    Pa = load(None, 'default')
    ctx.config = 'default'
    ctx.borrow('C15.look-into-contained-strings', 5, lambda: rules_c18.check_alloc_refusals(Pa, ctx), only=lambda o: o['key'].startswith('String'))
    # show and look keep nothing between calls: a counter or memo in a static is left wrong by a call that ends in an exception and is
    # shared between threads (shared with C13.no-shared-state)
    from . import rules_c13
    ctx.borrow('C15.show-keeps-no-state', 1, lambda: rules_c13.check_shared_state(Pa, ctx))


EXPLANATION = (
    'Decided: (a) escape-tables — the escape switch of the String writer and of the reader are inverse maps over the same set, the '
    'delimiter and the escape character are escaped, other characters are written as themselves; (b) one-char-per-step — every path '
    'through one iteration of the reader loop appends exactly one character; (c) spec-agreement — Int and Float are written and read with '
    'the same conversion specification; (d) position — scan_from_with appends %n to every copied specification, hands its counter to each '
    'read and adds it to the position once; decisions about a specification look only at the current letter and the copied specification; '
    'a floating read uses a double exactly with the l modifier; (e) show functions write through constant formats only. Not decided: '
    'numeric round-trip within the printed precision (Float look reads through `%f` into a float — a value-level loss reported in '
    'DESIGN.md), consumed-character counts for literals containing white space.')
