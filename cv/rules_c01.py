"""C01 — the collector never reclaims a reachable object (structural necessary conditions)."""
from . import probe, ir, util, loops
from .report import site
from .front import AnalysisBroken
from .loops import NoEval

UNITS = ['src/GC.c', 'src/Alloc.c', 'src/Thread.c', 'src/Array.c', 'src/List.c', 'src/Table.c', 'src/Tree.c',
         'src/Tuple.c', 'src/Pointer.c', 'src/Exception.c', 'src/Type.c', 'src/Num.c', 'src/String.c', 'src/File.c',
         'src/Function.c', 'src/Get.c']
WITNESS = ['/verif/witness/main_wrapper.c']


def field_atom(e, name):
    for x in ir.walk(e):
        if x[0] in ('arrow', 'dot') and x[2] == name:
            return x
    return None


def full_range(g, cond_node, bound_field, lo=0, search=False):
    """the loop controlled by cond_node visits exactly lo..bound-1 in steps of one
    (decided by evaluating its header for bounds 0..4)"""
    lp = loops.counted_loop(g, None, cond_node)
    if lp is None:
        return 'no induction variable'
    atom = field_atom(lp['cond'], bound_field)
    if atom is None:
        return 'loop test does not mention %s' % bound_field
    try:
        for n in range(0, 5):
            got = loops.iterate(lp, {atom: n})
            if got != list(range(lo, n)):
                return 'for %s = %d the header visits %s, not %s' % (bound_field, n, got, list(range(lo, n)))
    except NoEval as e:
        return 'header not evaluable: %s' % e
    if not loops.step_on_every_iteration(g, lp):
        return 'an iteration can reach the loop test again without the step'
    if not search and not loops.sole_exit(g, lp):
        return 'the loop can be left (second header condition, break or return) before the bound test fails: later indices are never visited'
    return lp


def marking_callbacks(P):
    """classify GC.c functions usable as `void f(var gc, void* ptr)` marking callbacks by evaluating them (cint) for a pointer that is
    (a) not registered, (b) registered and unmarked, (c) registered and already marked:
    'tracing'     = (a) traces the object's contents (GC_Recurse) — container Mark instances hand over *embedded* elements, which are
                    never registered themselves; (b), (c) go through the registry entry (GC_Mark_Item: marks and traces once, under
                    the mark bit) and do not trace again without a guard;
    'unguarded'   = traces a registered pointer again outside its mark bit: two Tuples that hold each other never finish;
    'lookup-only' = only marks the pointer if it is itself registered (GC_Mark_Item); embedded elements are not traced.
    -> {name: (kind, detail)}"""
    from . import cint
    out = {}
    for fname in ('GC_Mark_Item', 'GC_Mark_And_Recurse'):
        f = P.functions.get(fname)
        if f is None:
            continue
        if fname == 'GC_Mark_Item':
            out[fname] = ('lookup-only', 'the registry lookup itself')
            continue
        res = {}
        for label, registered in (('not registered', 0), ('registered', 1)):
            ev_ = []

            def call(nm, e, it, ev_=ev_, registered=registered):
                if nm == 'GC_Mem_Ptr':
                    return registered
                if nm in ('GC_Mark_Item', 'GC_Recurse'):
                    ev_.append((nm, it.ev(e[2][1])))
                    return 0
                raise cint.NoEval('call %s' % nm)
            r = cint.CInt(P, f, atoms={('global', 'NULL'): 0}, call=call).run([4300, 5000])
            res[label] = (r, list(ev_))
        (r0, e0), (r1, e1) = res['not registered'], res['registered']
        if r0[0] != 'ret' or r1[0] != 'ret':
            out[fname] = ('unknown', 'not evaluated: %s' % (r0[1] if r0[0] != 'ret' else r1[1],))
        elif ('GC_Recurse', 5000) not in e0:
            out[fname] = ('lookup-only', 'a pointer that is not registered is not traced (%s)' % (e0,))
        elif ('GC_Recurse', 5000) in e1:
            out[fname] = ('unguarded', 'a registered pointer is traced outside its mark bit (%s): a cycle through a Tuple is followed for ever' % ([x[0] for x in e1],))
        elif ('GC_Mark_Item', 5000) not in e1:
            out[fname] = ('lookup-only', 'a registered pointer is not marked through its entry (%s)' % (e1,))
        else:
            out[fname] = ('tracing', 'unregistered: %s; registered: %s' % ([x[0] for x in e0], [x[0] for x in e1]))
    return out


def check_mark_phase(P, ctx):
    rule = 'C01.mark-phase'
    fn = P.fn('GC_Mark')
    g = P.cfg(fn)
    ctx.fn(fn)
    N = util.Norm(P, fn, expand_locals=True)
    s = site(fn)
    gcp = ('param', 0)
    # early exit only for NULL collector / empty registry
    rets = [n for n in g.live() if n['kind'] == 'ret']
    early_ok = True
    for r in rets:
        # the return must be reachable only through (gc == NULL) true or (nitems == 0) true
        conds = [n for n in g.live() if n['kind'] == 'cond' and N.canon(n['expr']) in
                 (ir.canon(('bin', '==', gcp, ('int', 0))), ir.canon(('bin', '==', ('arrow', gcp, 'nitems'), ('int', 0))))]
        early_ok = early_ok and bool(conds) and g.must_pass(r['id'], through_edges=[(c['id'], True) for c in conds])
    ctx.check(early_ok, rule, 'GC_Mark:early-exit', s, 'marking is skipped only for a NULL collector or an empty registry')
    # the phases, in order, on every path that passes the early exit
    tls = [(n, c) for (n, c) in g.nodes_calling('mark')]
    ok_tls = len(tls) == 1
    if ok_tls:
        c = tls[0][1]
        a0 = ir.top_nocast(c[2][0])
        ok_tls = a0[0] == 'call' and ir.callee_name(a0) == 'current' and ir.top_nocast(a0[2][0]) == ('global', 'Thread') and \
            N.canon(c[2][1]) == gcp
    roots_loop = [n for n in g.live() if n['kind'] == 'cond' and field_atom(n['expr'], 'nslots') is not None]
    sj = [n for n in g.live() if n['expr'] is not None and any(ir.callee_name(c) in ('_setjmp', 'setjmp') for c in ir.calls(n['expr']))]
    stack = []
    for n in g.live():
        if n['expr'] is None:
            continue
        for c in ir.calls(n['expr']):
            callee = N.canon(c[1])
            if callee != ('func', 'GC_Mark_Stack'):
                callee = util.resolve_callee(g, c, n)
            if callee == ('func', 'GC_Mark_Stack') and c[2] and N.canon(c[2][0]) == gcp:
                stack.append(n)
    ok = ok_tls and len(roots_loop) == 1 and len(sj) == 1 and len(stack) == 1
    if ok:
        seq = [tls[0][0]['id'], roots_loop[0]['id'], sj[0]['id'], stack[0]['id']]
        # every normal completion that is not the early exit passes each phase, and in this order
        first_after_guard = tls[0][0]['id']
        for i, nid in enumerate(seq):
            ok = ok and g.must_pass(g.exit, [nid], start=first_after_guard)
            if i:
                ok = ok and g.must_pass(nid, [seq[i - 1]]) and seq[i - 1] not in g.reach_from(nid)
    ctx.check(ok, rule, 'GC_Mark:phases', s,
              'every collection passes, in order: thread-local marking, the root scan, the register flush (setjmp) and the stack scan (the only non-null target of the indirect call)')
    # root loop: all slots; root entries are marked and traced
    if len(roots_loop) == 1:
        lp = full_range(g, roots_loop[0], 'nslots')
        ctx.check(not isinstance(lp, str), rule, 'GC_Mark:root-scan-range', site(fn, roots_loop[0]['line']),
                  'the root scan visits every registry slot 0..nslots-1', [lp] if isinstance(lp, str) else None)
        if not isinstance(lp, str):
            iv = lp['iv']
            trace = [(n, c) for (n, c) in g.nodes_calling('GC_Recurse')]
            marks = [n for n in g.live() if n['kind'] == 'stmt' and ir.top_nocast(n['expr'])[0] == 'assign' and util.field_name(ir.top_nocast(n['expr'])[2]) == 'marked']
            ok = len(trace) == 1 and len(marks) == 1
            if ok:
                tn, tc = trace[0]
                ent = ir.nocast(tc[2][1])
                ok = ent[0] in ('dot', 'arrow') and ent[2] == 'ptr' and any(x == iv for x in ir.walk(ent)) and util.const_int(ir.top_nocast(marks[0]['expr'])[3]) == 1
                # reached exactly for occupied, unmarked root entries: controlled by root test true
                rootc = [n for n in g.live() if n['kind'] == 'cond' and util.field_name(n['expr']) == 'root']
                ok = ok and len(rootc) == 1 and g.must_pass(tn['id'], through_edges=[(rootc[0]['id'], True)]) and g.must_pass(tn['id'], [marks[0]['id']])
                # a root entry can be skipped only if empty or already marked
                skip_ok = True
                t_succ = [v for v, l in rootc[0]['succ'] if l is True][0]
                skip_ok = tn['id'] in g.reach_from(t_succ) and g.must_pass(lp['cond_node']['id'], [tn['id']], start=t_succ)
                ok = ok and skip_ok
                # the root test itself is reached for every occupied unmarked entry
                body = [v for v, l in lp['cond_node']['succ'] if l is True][0]
                pre = [n for n in g.live() if n['kind'] == 'cond' and n['id'] in g.reach_from(body) and rootc[0]['id'] in g.reach_from(n['id']) and n is not rootc[0] and n is not lp['cond_node']]
                allowed = {'hash', 'marked'}
                ok = ok and all(util.field_name(ir.top_nocast(n['expr'])) in allowed or
                                (ir.nocast(n['expr'])[0] == 'bin' and field_atom(n['expr'], 'hash') is not None) for n in pre)
            ctx.check(ok, rule, 'GC_Mark:roots-traced', site(fn), 'every occupied, not yet marked root entry is marked and then traced (GC_Recurse on its own pointer); nothing but empty/already-marked/non-root skips an entry')
    ctx.floor(rule, 4)
    return tls


def check_callbacks(P, ctx, tls):
    rule = 'C01.callback'
    kinds = marking_callbacks(P)
    u = P.units['src/GC.c']
    n = 0
    for fname, fn in sorted(u['functions'].items()):
        for c, ln in ir.all_calls(fn['body']):
            nm = ir.callee_name(c)
            callee = ir.top_nocast(c[1])
            is_mark = nm == 'mark' or (callee[0] == 'arrow' and callee[2] == 'mark')
            if not is_mark or len(c[2]) != 3:
                continue
            cb = ir.top_nocast(c[2][2])
            if cb[0] == 'param':
                continue      # a wrapper that passes its own callback parameter through
            n += 1
            key = '%s:%s' % (fname, 'thread-local' if nm == 'mark' else 'type-mark-instance')
            if cb[0] != 'func' or cb[1] not in kinds:
                ctx.undecided(rule, key, site(fn, ln), 'marking callback `%s` is not a known collector function' % ir.fmt(cb))
                continue
            ctx.stats['call_sites'] += 1
            ctx.check(kinds[cb[1]][0] == 'tracing', rule, key, site(fn, ln),
                      'container Mark instances hand over *embedded* elements (allocation class data), which are never registered themselves: the callback '
                      'must trace the contents of a pointer that is not registered, and must handle a registered one through its entry only (marked and traced '
                      'once, under the mark bit) so that marking ends on cycles',
                      ['callback passed: %s (%s: %s)' % (cb[1], kinds[cb[1]][0], kinds[cb[1]][1]), 'call: %s' % ir.fmt(c)[:160]])
    ctx.floor(rule, 2)


def check_stack_scan(P, ctx):
    rule = 'C01.stack-scan'
    fn = P.fn('GC_Mark_Stack')
    g = P.cfg(fn)
    ctx.fn(fn)
    defs = util.single_defs(fn)
    top = bot = None
    for lid, d in defs.items():
        t = ir.top_nocast(d)
        if t[0] == 'un' and t[1] == '&' and ir.top_nocast(t[2])[0] == 'local':
            top = lid
        if t[0] == 'arrow' and t[2] == 'bottom':
            bot = lid
    ok0 = top is not None and bot is not None
    ctx.check(ok0, rule, 'GC_Mark_Stack:bounds', site(fn), 'the scan runs between the address of a local of this frame (current top) and the recorded stack bottom')
    if not ok0:
        return
    topv = [x for e, _ in ir.all_exprs(fn['body']) for x in ir.walk(e) if x[0] == 'local' and x[2] == top][0]
    botv = [x for e, _ in ir.all_exprs(fn['body']) for x in ir.walk(e) if x[0] == 'local' and x[2] == bot][0]
    marks = [(n, c) for (n, c) in g.nodes_calling('GC_Mark_Item')]
    dirs = {}
    for n, c in marks:
        # the loop this call sits in
        conds = [x for x in g.live() if x['kind'] == 'cond' and g.must_pass(n['id'], through_edges=[(x['id'], True)]) and n['id'] in g.reach_from(x['id'])]
        loop_c = [x for x in conds if loops.counted_loop(g, None, x) is not None and x['id'] in g.reach_from(n['id'])]
        if len(loop_c) != 1:
            continue
        lp = loops.counted_loop(g, None, loop_c[0])
        arg = ir.nocast(c[2][1])
        deref_ok = arg[0] == 'un' and arg[1] == '*' and ir.top_nocast(arg[2]) == lp['iv']
        # evaluate the header with top/bot as word addresses
        for (tv, bv, name) in ((1000 + 8 * 3, 1000, 'down'), (1000, 1000 + 8 * 3, 'up')):
            try:
                got = loops.iterate(lp, {topv: tv, botv: bv})
            except NoEval as e:
                got = None
            if got:
                want = list(range(tv, bv - 1, -8)) if name == 'down' else list(range(tv, bv + 1, 8))
                # which direction guard leads here?
                dirs[name] = (got == want and deref_ok, got, want, n)
    for name, rel in (('down', 'stack bottom below the current top'), ('up', 'stack bottom above the current top')):
        if name not in dirs:
            ctx.refuted(rule, 'GC_Mark_Stack:' + name, site(fn), 'no scan loop handles the case of the %s' % rel)
            continue
        okd, got, want, n = dirs[name]
        # the loop must be entered exactly under its direction test
        gd = [x for x in g.live() if x['kind'] == 'cond' and ir.nocast(x['expr'])[0] == 'bin' and ir.nocast(x['expr'])[1] in ('<', '>') and
              {ir.nocast(x['expr'])[2], ir.nocast(x['expr'])[3]} == {topv, botv} and g.must_pass(n['id'], through_edges=[(x['id'], True)])]
        dir_ok = False
        for x in gd:
            e = ir.nocast(x['expr'])
            try:
                tv, bv = (1024, 1000) if name == 'down' else (1000, 1024)
                dir_ok = dir_ok or bool(loops.ev(e, {topv: tv, botv: bv}))
            except NoEval:
                pass
        ctx.check(okd and dir_ok, rule, 'GC_Mark_Stack:' + name, site(fn, n['line']),
                  'with the %s every word from the top to the bottom inclusive (stride sizeof(var)) is handed to the marker' % rel,
                  ['visited word addresses for top/bottom 3 words apart: %s' % got, 'required: %s' % want])
    ctx.floor(rule, 3)


def check_first_mark(P, ctx):
    """GC_Mark_Item: (a) an entry is traced exactly when it is marked for the first time; (b) the candidate filter rejects a word
    only if it is misaligned or outside [minptr, maxptr].  Both are decided as truth tables by walking the function with the
    analyser's evaluator (the spelling of the tests — nested, negated, split, `continue` — does not matter)."""
    rule = 'C01.first-mark-recurses'
    fn = P.fn('GC_Mark_Item')
    g = P.cfg(fn)
    ctx.fn(fn)
    N = util.Norm(P, fn, expand_locals=True, inline=False)
    marks = [n for n in g.live() if n['kind'] == 'stmt' and ir.top_nocast(n['expr'])[0] == 'assign' and util.field_name(ir.top_nocast(n['expr'])[2]) == 'marked'
             and util.const_int(ir.top_nocast(n['expr'])[3]) == 1]
    rec = [(n, c) for (n, c) in g.nodes_calling('GC_Recurse')]
    hashn = [n for (n, c) in g.nodes_calling('GC_Hash')]
    ok = len(marks) == 1 and len(rec) == 1 and len(hashn) >= 1
    detail = None
    if ok:
        mn = marks[0]
        rn, rc = rec[0]
        ment = ir.top_nocast(N.canon(ir.top_nocast(mn['expr'])[2]))          # entries[i].marked
        rent = ir.top_nocast(N.canon(rc[2][1]))                              # entries[i].ptr
        same_entry = ment[0] in ('dot', 'arrow') and rent[0] in ('dot', 'arrow') and rent[2] == 'ptr' and ment[1] == rent[1]
        ent = ment[1] if same_entry else None
        detail = ['mark: %s' % g.describe(mn), 'trace: %s' % g.describe(rn)]
        table = {}
        if same_entry:
            for match in (True, False):
                for marked in (0, 1):
                    env = {('param', 1): 40, ('arrow', ('param', 0), 'minptr'): 8, ('arrow', ('param', 0), 'maxptr'): 800,
                           ('arrow', ('param', 0), 'nslots'): 11,
                           ('dot', ent, 'hash'): 4, ('dot', ent, 'ptr'): 40 if match else 48, ('dot', ent, 'marked'): marked,
                           '__call__': lambda e, env_: 3 if ir.callee_name(e) == 'GC_Hash' else 9}
                    why, node, env2 = util.walk_eval(g, N, env, stop=[rn['id']], max_steps=80, unsigned=True)
                    traced = (why == 'stop' and node['id'] == rn['id'])
                    table[(match, marked)] = (traced, env2.get(('dot', ent, 'marked')))
            want = {(True, 0): (True, 1), (True, 1): (False, 1), (False, 0): (False, 0), (False, 1): (False, 1)}
            ok = table == want and rn['id'] not in g.reach_from(rn['succ'][0][0]) if rn['succ'] else table == want
            detail.append('(pointer matches, already marked) -> (traced, mark afterwards): %s' % sorted(table.items()))
        else:
            ok = False
    ctx.check(ok, rule, 'GC_Mark_Item', site(fn), 'an entry is traced exactly when it is marked for the first time: the store of the mark precedes one call of the tracer on the same entry, '
              'under (pointer matches and not yet marked) — so tracing terminates on cycles and shared objects, and no marked object is left untraced', detail)
    # candidate filter: only misaligned / out-of-range words are rejected
    ok = bool(hashn)
    bad = None
    if ok:
        for pv in (8, 16, 24, 20, 17, 64, 72, 0):
            env = {('param', 1): pv, ('arrow', ('param', 0), 'minptr'): 16, ('arrow', ('param', 0), 'maxptr'): 64, ('arrow', ('param', 0), 'nslots'): 11}
            why, node, env2 = util.walk_eval(g, N, env, stop=[n['id'] for n in hashn], max_steps=40, unsigned=True)
            rejected = (why == 'ret')
            if why not in ('ret', 'stop'):
                bad = 'word %d: the filter is not evaluable (%s at %s)' % (pv, why, g.describe(node))
                break
            want = (pv % 8 != 0) or pv < 16 or pv > 64
            if rejected != want:
                bad = 'with registered addresses in [16, 64], the word %d is %s' % (pv, 'rejected although it may be a registered address' if rejected else 'looked up although it cannot be one')
                break
        ok = bad is None
    ctx.check(ok, rule, 'GC_Mark_Item:filter', site(fn), 'a candidate word is rejected early only if misaligned, strictly below the smallest or strictly above the largest registered address',
              [bad] if bad else None)
    ctx.floor(rule, 2)


SKIP_OK_REASON = {
    'Type': 'own allocator; instance data is static',
}


def check_tracer(P, ctx):
    rule = 'C01.tracer'
    fn = P.fn('GC_Recurse')
    g = P.cfg(fn)
    ctx.fn(fn)
    tvar = [n for n in g.live() if n.get('decl') and n['decl']['init'] is not None and any(ir.callee_name(c) == 'type_of' for c in ir.calls(n['decl']['init']))]
    if len(tvar) != 1:
        ctx.undecided(rule, 'GC_Recurse:shape', site(fn), 'type of the traced object no longer bound to one local')
        return
    tv = ('local', tvar[0]['decl']['name'])
    # (iii) skip list: types compared with `type` whose true branch returns without tracing
    skips = []
    for n in g.live():
        if n['kind'] != 'cond':
            continue
        c = ir.canon(n['expr'])
        if c[0] == 'bin' and c[1] == '==' and tv in (c[2], c[3]):
            other = c[3] if c[2] == tv else c[2]
            if other[0] == 'global':
                skips.append((n, other[1]))
    for n, T in skips:
        rec = P.records.get(T)
        key = 'skip:' + T
        if T in SKIP_OK_REASON:
            ctx.proved(rule, key, site(fn, n['line']), 'type %s is exempt from tracing (%s)' % (T, SKIP_OK_REASON[T]))
            continue
        if rec is None:
            ctx.refuted(rule, key, site(fn, n['line']), 'type %s is skipped by the tracer but its layout is unknown' % T)
            continue
        holders = [f for f in rec['fields'] if f[2] == 'var' or f[1] in ('void *', 'void **', 'var *')]
        ctx.check(not holders, rule, key, site(fn, n['line']),
                  'a type the tracer skips must have no field that can hold a managed object; struct %s has fields %s' % (T, [f[0] + ':' + f[2] for f in rec['fields']]),
                  ['object-holding fields: %s' % holders] if holders else None)
    # (i) Mark instance used with a recursing callback (callback kind is C01.callback); here: it is consulted before the conservative scan
    ind = [n for n in g.live() if n['expr'] is not None and any(ir.callee_name(c) is None and ir.top_nocast(c[1])[0] == 'arrow' and ir.top_nocast(c[1])[2] == 'mark' for c in ir.calls(n['expr']))]
    inst = [n for n in g.live() if n.get('decl') and n['decl']['init'] is not None and
            any(ir.callee_name(c) == 'type_instance' and ir.top_nocast(c[2][1]) == ('global', 'Mark') and ir.canon(c[2][0]) == tv for c in ir.calls(n['decl']['init']))]
    ok = len(ind) == 1 and len(inst) == 1
    if ok:
        c = [c for c in ir.calls(ind[0]['expr']) if ir.callee_name(c) is None][0]
        ok = ir.top_nocast(c[2][0]) == ('param', fn['params'][1][0], 1) and ir.top_nocast(c[2][1]) == ('param', fn['params'][0][0], 0)
    ctx.check(ok, rule, 'GC_Recurse:mark-instance', site(fn), 'a type that declares a Mark instance is traced through it, on the object itself and this collector')
    # (ii) conservative scan covers every aligned word of the object — evaluated (cint) for objects of 0..4 words, with and without a tail
    # that is no whole word: every whole word is read from the object and handed to the marker once, in order, nothing else is
    from . import cint
    ok, detail = True, []
    OBJ, TYP = 700000, 8577
    unsup_ = None
    for words in range(0, 5):
        for extra in (0, 3, 5):
            size = words * 8 + extra
            ev_ = []

            def call(nm, e, it, size=size, ev_=ev_):
                if nm == 'type_of':
                    return TYP
                if nm in ('type_instance', 'instance'):
                    return 0
                if nm == 'size':
                    return size
                if nm == 'GC_Mark_Item':
                    ev_.append(it.ev(e[2][1]))
                    return 0
                raise cint.NoEval('call %s' % nm)

            def mem(a, it, size=size):
                off = a - OBJ
                if off % 8 or off < 0 or off + 8 > size:
                    raise TracerMismatch('reads the word at byte %d of an object of %d bytes' % (off, size))
                return 9000 + off // 8
            atoms = {('global', 'NULL'): 0}
            for T_ in ('Int', 'Float', 'String', 'Type', 'File', 'Process', 'Function', 'Mark', 'Ref', 'Box', 'Tuple', 'Array', 'List', 'Table', 'Tree', 'Range', 'Slice', 'Zip', 'Filter', 'Map', 'GC', 'Thread', 'Mutex', 'Exception'):
                atoms[('global', T_)] = 8100 + len(atoms)
            it = cint.CInt(P, fn, atoms=atoms, call=call, mem=mem, recurse=True, strict=True, max_steps=400)
            it.atoms = atoms
            try:
                r = it.run([('ep', 'gc', 0), OBJ])
            except TracerMismatch as x:
                ok = False
                detail.append('object of %d bytes: %s' % (size, x))
                continue
            if r[0] != 'ret':
                unsup_ = unsup_ or 'object of %d bytes: %s' % (size, r[1])
                continue
            want = [9000 + k for k in range(words)]
            if ev_ != want:
                ok = False
                detail.append('object of %d bytes: words handed to the marker %s, every whole word is %s' % (size, [x - 9000 if isinstance(x, int) else x for x in ev_], list(range(words))))
    if unsup_ and ok:
        ctx.undecided(rule, 'GC_Recurse:conservative-scan', site(fn), 'the scan leaves the evaluated fragment: ' + unsup_)
        ctx.floor(rule, 9)
        return
    ctx.check(ok, rule, 'GC_Recurse:conservative-scan', site(fn), 'an object without a Mark instance has every whole word [0, size(type)) handed to the marker', detail[:4])
    ctx.floor(rule, 9)


class TracerMismatch(Exception):
    pass


def check_container_marks(P, ctx):
    rule = 'C01.container-mark'
    specs = [('Array', ['Array_Item']), ('Table', ['Table_Key', 'Table_Val']), ('Tree', ['Tree_Key', 'Tree_Val']),
             ('List', None), ('Tuple', None), ('Thread', None)]
    for T, accs in specs:
        fname = P.slot(T, 'Mark', 'mark')
        fn = P.fn(fname)
        g = P.cfg(fn)
        ctx.fn(fn)
        fpar = ('param', fn['params'][2][0], 2)
        gcpar = ('param', fn['params'][1][0], 1)
        cbs = []
        for n in g.live():
            if n['expr'] is None:
                continue
            for c in ir.calls(n['expr']):
                if ir.top_nocast(c[1]) == fpar:
                    cbs.append((n, c))
        s = site(fn)
        if T == 'Thread':
            cs = [(n, c) for (n, c) in g.nodes_calling('mark')]
            N = util.Norm(P, fn)
            ok = len(cs) == 1 and N.canon(cs[0][1][2][0]) == ('arrow', ('param', 0), 'tls') and N.canon(cs[0][1][2][1]) == ('param', 1) and \
                N.canon(cs[0][1][2][2]) == ('param', 2) and g.must_pass(g.exit, [cs[0][0]['id']])
            # tls is a Table created by the thread constructor
            tn = P.fn(P.slot('Thread', 'New', 'construct_with'))
            mk = [c for c, _ in ir.all_calls(tn['body']) if ir.callee_name(c) == 'new_raw_with' and ir.top_nocast(c[2][0]) == ('global', 'Table')]
            ok = ok and len(mk) == 1
            ctx.check(ok, rule, fname, s, 'a thread marks its thread-local table (created as a Table by its constructor) with the same collector and callback')
            continue
        # evaluated on small instances of the container (absmodel): the callback receives the collector it was handed and every element
        # (for maps: every key and every value) exactly once
        from . import absmodel
        try:
            bad, unsup, ncase = absmodel.eval_visits(P, T, fname, 'mark')
        except absmodel.Unsupported as x:
            bad, unsup, ncase = None, str(x), 0
        ctx.stats['paths'] += ncase
        if unsup and not bad:
            ctx.undecided(rule, fname, s, 'the Mark instance leaves the evaluated fragment: ' + unsup)
        elif bad:
            ctx.refuted(rule, fname, s, 'the Mark instance of %s must hand every element (for maps: every key and value) to the collector: %s' % (T, bad))
        else:
            ctx.proved(rule, fname, s, 'the traversal covers the full element set and hands every %s to the callback (%d instances evaluated)' % (
                'key and value' if accs and len(accs) == 2 else 'element', ncase))
    # a List is marked correctly not only between operations but wherever an operation hands control to outside code (assign, a
    # destructor, the other iterable's cursor functions): those can allocate, and an allocation can start a collection
    from . import seqmodel
    fnm = P.fn(P.slot('List', 'Mark', 'mark'))
    res = seqmodel.list_ops(P, 'List')
    probs = [seqmodel.MARKS.get((id(P), op)) for op in res if seqmodel.MARKS.get((id(P), op))]
    unsupl = [v[2] for v in res.values() if v[2]]
    if unsupl and not probs:
        ctx.undecided(rule, 'List:mid-operation', site(fnm), 'the List operations leave the evaluated fragment: ' + unsupl[0])
    else:
        ctx.check(not probs, rule, 'List:mid-operation', site(fnm), 'evaluated inside push, pop, push_at, pop_at, rem, resize and concat at every call to outside code: the Mark instance '
                  'hands every node that is linked at that moment to the collector, whatever the count field says there', probs[:1] if probs else None)
    # every container type that stores Cello objects declares a Mark instance (otherwise it is scanned conservatively,
    # which only sees the container's own struct, not its heap storage)
    for T in ('Array', 'List', 'Table', 'Tree', 'Tuple'):
        ctx.check(P.slot(T, 'Mark', 'mark', required=False) is not None, rule, T + ':declares-Mark', 'src/%s.c' % T, '%s declares a Mark instance' % T)
    ctx.floor(rule, 12)


REFERENCE_FREE = {'String', 'Int', 'Float', 'File', 'Process', 'Mutex'}     # types whose objects hold no Cello reference


def check_raw_parts(P, ctx, rule='C01.raw-parts-are-traced'):
    """an object allocated raw (new_raw, alloc_raw) is not registered: the marker that reaches its address finds no entry and stops.  A
    raw object that can hold references and is kept in a field of another object is therefore traced only if the owner's type has a Mark
    instance that hands the field on — everything else the owner keeps alive through it would be swept."""
    n = 0
    for fn in P.all_functions():
        if not fn['unit'].startswith('src/'):
            continue
        g = P.cfg(fn)
        ltypes = {}
        for nd in g.live():
            d = nd.get('decl')
            if d:
                ltypes[('local', d['name'], d['id'])] = d['type']
        for pi, (pn, pt) in enumerate(fn['params']):
            ltypes[('param', pn, pi)] = pt
        for nd in g.live():
            e = nd['expr']
            if e is None:
                continue
            for x in ir.walk(e):
                if x[0] != 'assign' or x[1] != '=':
                    continue
                lhs, rhs = x[2], ir.top_nocast(x[3])
                if lhs[0] != 'arrow' or rhs[0] != 'call' or ir.callee_name(rhs) not in ('new_raw_with', 'alloc_raw'):
                    continue
                t2 = ir.top_nocast(rhs[2][0])
                t2 = t2[1] if t2[0] == 'global' else None
                base = ir.top_nocast(lhs[1])
                if lhs[1][0] == 'cast':
                    bt = lhs[1][1]
                else:
                    bt = ltypes.get(base, '')
                owner = bt.replace('struct ', '').replace('*', '').strip() if bt.startswith('struct ') else None
                n += 1
                key = '%s.%s' % (owner or fn['name'], lhs[2])
                ctx.fn(fn)
                if t2 in REFERENCE_FREE:
                    ctx.proved(rule, key, site(fn, nd['line']), 'the raw part is a %s, which holds no reference to another object' % t2)
                    continue
                mk = P.slot(owner, 'Mark', 'mark', required=False) if owner and owner in P.types else None
                ok = False
                if mk:
                    mfn = P.fn(mk)
                    ok = any(ir.callee_name(c) == 'mark' and util.mentions_field(c[2][0], lhs[2]) for c, _ in ir.all_calls(mfn['body'])) or \
                        any(ir.top_nocast(c[1])[0] == 'param' and any(util.mentions_field(a, lhs[2]) for a in c[2]) for c, _ in ir.all_calls(mfn['body']))
                ctx.check(ok, rule, key, site(fn, nd['line']), 'a raw (unregistered) %s is kept in field `%s` of %s: the marker cannot trace through an unregistered object, so %s must have '
                          'a Mark instance that hands this field on' % (t2 or 'object', lhs[2], owner or 'an object', owner or 'the owner'))
    ctx.floor(rule, 2)


def check_sweep_and_cycle(P, ctx):
    from .rules_c06 import check_sweep
    # sweep guard / pairing are shared with C06
    before = len(ctx.obs)
    check_sweep(P, ctx)
    for o in ctx.obs[before:]:
        o['rule'] = 'C01.sweep-guard'
    ctx.floors.pop(('C06.sweep-once', ctx.config), None)
    ctx.floor('C01.sweep-guard', 6)
    # mark before sweep
    rule = 'C01.mark-before-sweep'
    u = P.units['src/GC.c']
    delf = P.slot('GC', 'New', 'destruct')
    n = 0
    for fname, fn in sorted(u['functions'].items()):
        g = P.cfg(fn)
        for (sn, sc) in g.nodes_calling('GC_Sweep'):
            n += 1
            if fname == delf:
                ctx.proved(rule, fname, site(fn, sn['line']), 'teardown sweeps without marking by design (everything that is not a root goes)')
                continue
            mk = [(mn, mc) for (mn, mc) in g.nodes_calling('GC_Mark') if ir.canon(mc[2][0]) == ir.canon(sc[2][0])]
            ok = bool(mk) and g.must_pass(sn['id'], [m[0]['id'] for m in mk])
            # nothing that registers objects between mark and sweep
            if ok:
                between = g.reach_from(mk[0][0]['id']) - g.reach_from(sn['id']) - {mk[0][0]['id']}
                for i in between:
                    x = g.nodes[i]
                    if x['expr'] is not None and any(ir.callee_name(c) in ('GC_Set_Ptr', 'GC_Set', 'GC_Rehash', 'GC_Resize_More') for c in ir.calls(x['expr'])):
                        ok = False
            ctx.check(ok, rule, fname, site(fn, sn['line']), 'a sweep outside teardown is dominated by a mark phase on the same collector, with no registration in between')
    ctx.floor(rule, 2)
    check_marks_cleared(P, ctx, 'C01.marks-cleared')


def check_marks_cleared(P, ctx, rule):
    # marks cleared after sweep; new entries unmarked
    fn = P.fn('GC_Sweep')
    g = P.cfg(fn)
    clears = [n for n in g.live() if n['kind'] == 'stmt' and ir.top_nocast(n['expr'])[0] == 'assign' and util.field_name(ir.top_nocast(n['expr'])[2]) == 'marked' and
              util.const_int(ir.top_nocast(n['expr'])[3]) == 0]
    ok = len(clears) == 1
    reason = None
    if ok:
        conds = [n for n in g.live() if n['kind'] == 'cond' and field_atom(n['expr'], 'nslots') is not None and loops.counted_loop(g, None, n) is not None and
                 g.must_pass(clears[0]['id'], through_edges=[(n['id'], True)])]
        # the innermost for loop that contains the clear
        conds = [c for c in conds if c['id'] in g.reach_from(clears[0]['id'])]
        lp = None
        for c in conds:
            r = full_range(g, c, 'nslots')
            if not isinstance(r, str):
                lp = r
        if lp is None:
            ok = False
            reason = 'no full-range loop over the slots contains the clearing store'
        else:
            ent = ir.nocast(ir.top_nocast(clears[0]['expr'])[2])[1]
            ok = any(x == lp['iv'] for x in ir.walk(ent))
            # every marked entry reaches the clear: the only tests on the way are hash==0 and marked
            body = [v for v, l in lp['cond_node']['succ'] if l is True][0]
            pre = [n for n in g.live() if n['kind'] == 'cond' and n['id'] in g.reach_from(body) and clears[0]['id'] in g.reach_from(n['id']) and n is not lp['cond_node']]
            ok = ok and all(util.field_name(ir.top_nocast(n['expr'])) == 'marked' or field_atom(n['expr'], 'hash') is not None for n in pre)
            mk = [n for n in pre if util.field_name(ir.top_nocast(n['expr'])) == 'marked']
            ok = ok and len(mk) == 1 and g.must_pass(clears[0]['id'], through_edges=[(mk[0]['id'], True)])
            # the clearing loop runs on every sweep, after the reclaim scan
            ok = ok and g.must_pass(g.exit, [lp['cond_node']['id']])
    ctx.check(ok, rule, 'GC_Sweep:clear', site(fn), 'after reclaiming, a loop over every slot clears the mark of every surviving entry (a stale mark would suppress tracing in the next collection)', [reason] if reason else None)
    fn = P.fn('GC_Set_Ptr')
    ent = [d for s_ in ir.stmts(fn['body']) if s_['k'] == 'decl' for d in s_['decls'] if d['type'] == 'struct GCEntry' and d['init'] is not None and d['init'][0] == 'initlist']
    ok = len(ent) == 1
    if ok:
        fields = [f[0] for f in P.records['GCEntry']['fields']]
        vals = list(ent[0]['init'][1])
        m = dict(zip(fields, vals))
        ok = util.const_int(m.get('marked')) == 0 and ir.top_nocast(m.get('root')) == ('param', fn['params'][2][0], 2) and ir.top_nocast(m.get('ptr')) == ('param', fn['params'][1][0], 1)
    ctx.check(ok, rule, 'GC_Set_Ptr:new-entry', site(fn), 'a new registry entry records the pointer and the root flag it was given and starts unmarked')
    ctx.floor(rule, 2)


def check_root_flag(P, ctx):
    rule = 'C01.root-flag'
    fn = P.fn('alloc_by')
    g = P.cfg(fn)
    ctx.fn(fn)
    # decided per allocation method by enumerating the paths that are feasible for that method (switch or if-chain alike)
    N = util.Norm(P, fn, expand_locals=True, inline=False)
    got = {}
    ok = True
    for name in ('ALLOC_STANDARD', 'ALLOC_RAW', 'ALLOC_ROOT'):
        if name not in P.enums:
            ok = False
            continue
        seen = set()
        npaths = 0
        env = {('enum', k): v for k, v in P.enums.items()}
        env[('param', 1)] = P.enums[name]
        for path in util.paths_under(g, N, env, P.enums):
            if util.path_end(path)[0] != 'ret':
                continue
            npaths += 1
            regs = []
            for ev in util.path_events(path):
                if ev['t'] == 'call' and ev['name'] == 'set' and len(ev['args']) == 3:
                    a0 = ir.top_nocast(ev['args'][0])
                    st = ir.as_stack(ev['args'][2])
                    if a0[0] == 'call' and ir.callee_name(a0) == 'current' and ir.top_nocast(a0[2][0]) == ('global', 'GC') and st and st[0] == 'Int':
                        regs.append((ir.canon(ev['args'][1]), util.const_int(st[1][0])))
            rv = ir.canon(util.path_end(path)[1]) if util.path_end(path)[1] is not None else None
            seen.add((tuple(regs), rv))
        got[name] = sorted(seen, key=str)
        want = {'ALLOC_STANDARD': 0, 'ALLOC_ROOT': 1}.get(name)
        for regs, rv in seen:
            if want is None:
                ok = ok and regs == ()
            else:
                ok = ok and regs == ((rv, want),)
        ok = ok and npaths > 0
    ctx.check(ok, rule, 'alloc_by', site(fn), 'standard allocations are registered with root flag 0, root allocations with flag 1, raw allocations not at all — each exactly once, with the pointer that is returned',
              ['registrations per method: %s' % {k: [[(ir.fmt(a), b) for a, b in regs] for regs, rv in v] for k, v in got.items()}])
    for w, m in (('alloc', 'ALLOC_STANDARD'), ('alloc_raw', 'ALLOC_RAW'), ('alloc_root', 'ALLOC_ROOT')):
        f = P.fn(w)
        cs = [c for c, _ in ir.all_calls(f['body']) if ir.callee_name(c) == 'alloc_by']
        ctx.check(len(cs) == 1 and ir.top_nocast(cs[0][2][1]) == ('enum', m) and ir.top_nocast(cs[0][2][0]) == ('param', f['params'][0][0], 0), rule, w, site(f), '%s requests method %s' % (w, m))
    # GC_Set hands the flag through (evaluated: C17's evaluation of GC_Set over running/stopped x counts x sizes x thresholds x flag)
    from .rules_c17 import eval_gc_set
    fn = P.fn(P.slot('GC', 'Get', 'set'))
    res = eval_gc_set(P)
    if res['unsup'] and not res['count']:
        ctx.undecided(rule, 'GC_Set:flag', site(fn), 'GC_Set leaves the evaluated fragment: ' + res['unsup'])
    else:
        ctx.check(res['count'] is None, rule, 'GC_Set:flag', site(fn), 'the registry insertion receives the registered pointer and the flag value (once, after the count was raised)',
                  [res['count']] if res['count'] else None)
    ctx.floor(rule, 5)


def check_range_filter(P, ctx):
    rule = 'C01.range-filter'
    fn = P.fn(P.slot('GC', 'Get', 'set'))
    g = P.cfg(fn)
    ctx.fn(fn)
    N = util.Norm(P, fn)
    ins = [n for (n, c) in g.nodes_calling('GC_Set_Ptr')]
    key = ('param', 1)
    NE = util.Norm(P, fn, expand_locals=False)
    mx, mn = ('arrow', ('param', 0), 'maxptr'), ('arrow', ('param', 0), 'minptr')
    ok = len(ins) == 1
    if ok:
        # evaluate the function up to the insertion for sample (address, old max, old min) triples
        for kv, omax, omin in ((50, 90, 10), (95, 90, 10), (5, 90, 10), (90, 90, 10), (10, 90, 10), (7, 0, (1 << 64) - 1)):
            env = {key: kv, mx: omax, mn: omin, ('arrow', ('param', 0), 'running'): 1, ('arrow', ('param', 0), 'nitems'): 3}
            why, node, out = util.walk_eval(g, NE, env, stop=[ins[0]['id']])
            if why != 'stop' or out.get(mx) != max(kv, omax) or out.get(mn) != min(kv, omin):
                ok = False
    ctx.check(ok, rule, 'GC_Set:bounds', site(fn), 'before an object is inserted, maxptr/minptr are widened to include its address (the marker pre-filters candidates by this range)')
    fn = P.fn(P.slot('GC', 'New', 'construct_with'))
    N = util.Norm(P, fn)
    st = {}
    for e, _ in ir.all_exprs(fn['body']):
        for ev_ in util.expr_events(e, None):
            if ev_['t'] == 'write':
                l = N.canon(ev_['lhs'])
                if l[0] == 'arrow' and l[1] == ('param', 0):
                    st[l[2]] = N.canon(ev_['rhs'])
    ok = util.const_int(st.get('maxptr')) == 0 and st.get('minptr') is not None and (st['minptr'] == ('int', (1 << 64) - 1) or util.const_int(st['minptr']) in ((1 << 64) - 1, -1))
    ctx.check(ok, rule, 'GC_New:initial-range', site(fn), 'a fresh collector starts with an empty address range (maxptr 0, minptr UINTPTR_MAX)')
    ctx.floor(rule, 2)


def check_stack_bottom(P, ctx):
    rule = 'C01.stack-bottom'
    for fname, usercall in (('Thread_Init_Run', 'call_with'), ('main', 'Cello_Main')):
        fn = P.fn(fname)
        g = P.cfg(fn)
        ctx.fn(fn)
        news = [(n, c) for (n, c) in g.nodes_calling('new_raw_with') if ir.top_nocast(c[2][0]) == ('global', 'GC')]
        user = [n for (n, c) in g.nodes_calling(usercall)]
        ok = len(news) == 1 and len(user) == 1
        if ok:
            tp = ir.as_tuple(news[0][1][2][1])
            st = ir.as_stack(tp[0]) if tp and len(tp) == 1 else None
            addr = ir.top_nocast(st[1][0]) if st and st[0] == 'Ref' else None
            ok = addr is not None and addr[0] == 'un' and addr[1] == '&' and ir.top_nocast(addr[2])[0] == 'local' and g.must_pass(user[0]['id'], [news[0][0]['id']])
        ctx.check(ok, rule, fname, site(fn) if fname != 'main' else 'include/Cello.h (main macro)',
                  'the collector is created, before user code runs, with the address of a local of the frame that calls the user code as its stack bottom')
    # GC_New records it
    fn = P.fn(P.slot('GC', 'New', 'construct_with'))
    N = util.Norm(P, fn, expand_locals=True, keep={'cast', 'get'})
    st = {}
    for e, _ in ir.all_exprs(fn['body']):
        for ev_ in util.expr_events(e, None):
            if ev_['t'] == 'write':
                l = N.canon(ev_['lhs'])
                if l[0] == 'arrow' and l[1] == ('param', 0):
                    st[l[2]] = N.canon(ev_['rhs'])
    b = st.get('bottom')
    ok = b is not None and b[0] == 'arrow' and b[2] == 'val' and any(ir.callee_name(x) == 'get' for x in ir.calls(b))
    ctx.check(ok, rule, 'GC_New:records-bottom', site(fn), 'the constructor stores the address carried by its first argument as the stack bottom')
    ctx.floor(rule, 3)


def check_recursion(P, ctx):
    """marking must not use native stack in proportion to pointer-chain length"""
    rule = 'C01.bounded-native-stack'
    fn = P.fn('GC_Mark_Item')
    # call-graph cycle marker <-> tracer
    a = 'GC_Recurse' in P.callees('GC_Mark_Item')
    b = 'GC_Mark_Item' in P.callees('GC_Recurse')
    via_cb = any(ir.top_nocast(c[2][2]) == ('func', 'GC_Mark_And_Recurse') for c, _ in ir.all_calls(P.fn('GC_Recurse')['body']) if len(c[2]) == 3)
    if a and (b or via_cb):
        ctx.refuted(rule, 'GC_Mark_Item<->GC_Recurse', site(fn),
                    'the marker and the tracer call each other (directly for plain structs, and through every container Mark instance): marking a chain of N '
                    'objects nests 2N native frames, so a sufficiently long chain overflows the stack and the collection does not run to completion',
                    ['GC_Mark_Item -> GC_Recurse -> GC_Mark_Item (conservative scan)', 'GC_Recurse -> Mark instance -> GC_Mark_And_Recurse -> GC_Recurse'])
    else:
        ctx.proved(rule, 'GC_Mark_Item<->GC_Recurse', site(fn), 'marking does not recurse on the native stack')
    ctx.floor(rule, 1)


def run(ctx, load):
    P = load(UNITS, 'default', WITNESS)
    ctx.stats['units'] = set(UNITS) | {'witness/main_wrapper.c', 'include/Cello.h'}
    ctx.stats['configs'] = ['default']
    tls = check_mark_phase(P, ctx)
    check_callbacks(P, ctx, tls)
    check_stack_scan(P, ctx)
    check_first_mark(P, ctx)
    check_tracer(P, ctx)
    check_container_marks(P, ctx)
    check_raw_parts(load(None, 'default'), ctx)
    # the marker finds an object only through the registry's lookup and marks it through GC_Mark_Item: both evaluated on registries whose
    # pointers collide and wrap (gcmodel, shared with C17)
    from .rules_c17 import report_registry
    report_registry(P, ctx, 'C01.registry-lookup', ('mem', 'mark'))
    ctx.floor('C01.registry-lookup', 2)
    check_sweep_and_cycle(P, ctx)
    check_root_flag(P, ctx)
    from .rules_c17 import check_entry_moves_whole
    check_entry_moves_whole(P, ctx, rule='C01.root-flag-travels')
    check_range_filter(P, ctx)
    check_stack_bottom(P, ctx)
    check_recursion(P, ctx)
    # the marker finds an object only through the probe distance of the entries it passes: entries that wrapped past the end of
    # the table included
    why = probe.probe_function_eval(P, 'GC_Probe')
    ctx.check(why is None, 'C01.probe-distance', 'GC_Probe', site(P.fn('GC_Probe')),
              'the probe distance of a registry entry is (slot - home) modulo the slot count, non-negative also for entries that wrapped past the end '
              'of the table (a wrong distance ends the marker\'s lookup early: a reachable object stays unmarked)', [why] if why else None)
    ctx.floor('C01.probe-distance', 1)
    # a root / a fresh object is registered before its constructor can allocate (and so trigger a collection)
    from .rules_c06 import check_registered_before_use
    check_registered_before_use(P, ctx, rule='C01.registered-before-constructed')
    if ctx.tier == 'thorough':
        for cfg in ('ndebug', 'nocache'):
            Pc = load(UNITS, cfg, WITNESS)
            ctx.stats['configs'].append(cfg)
            tls = check_mark_phase(Pc, ctx)
            check_callbacks(Pc, ctx, tls)
            check_stack_scan(Pc, ctx)
            check_first_mark(Pc, ctx)
            check_tracer(Pc, ctx)
            check_container_marks(Pc, ctx)
        ctx.config = 'default'


EXPLANATION = (
    'Decided (necessary conditions of "everything reachable is marked, only unmarked non-roots are swept, marking terminates"): '
    'mark-phase order and coverage in GC_Mark (thread-local storage, all root slots, register flush, stack scan); stack scan covers '
    'top..bottom inclusive in both directions (loop headers evaluated symbolically); an entry is traced exactly on its first marking; '
    'the tracer uses the Mark instance or scans every whole word, and every type it skips holds no object pointers; every marking '
    'callback handed to a Mark instance traces contents unconditionally; each container Mark instance covers its full element set and '
    'hands over every element / key and value; sweep reclaims only occupied, unmarked, non-root entries, is dominated by a mark phase '
    'outside teardown, and clears all marks afterwards; root flags and the candidate address range are recorded before insertion; '
    'the stack bottom is a local of the frame that calls user code; marker/tracer recursion is reported (known finding). Not decided: '
    'that the compiler keeps every live pointer in a scanned word, registry probe arithmetic (C17), allocator address patterns.')
